#!/usr/bin/env python3
"""Generates /verif/MANIFEST.json from the table below (kept in one place so the
manifest stays valid while checks are added)."""
import json, os
ROOT = os.path.dirname(os.path.dirname(os.path.abspath(__file__)))

CHECKS = {
 "C01": ("stateless exhaustive program-space exploration of the real Compile/Eval against reference evaluator R1",
         "All CORE programs <=7 (thorough 8) nodes and RICH programs <=6 (7) nodes, optimisations off, x variable-registration modes x event modes x alias spellings x every binding incl. fetch failures, plus every builtin/alias x every operand tuple of arity 0..3; value, error identity and ordered fetch/operator trace compared with a recursive reference evaluator on every execution.",
         "Small-scope hypothesis on tree size; the reference evaluator is the documented semantics; value alphabets {true,false},{0,1} plus sentinel failures.", "4 C01"),
 "C06": ("exhaustive enumeration of source texts (token sequences, character strings, mutations of valid programs) executed on the real Compile/Eval/TryEval/Dump/DumpTable under a panic fence and hang watchdog",
         "Every token sequence <=5 (thorough 6) over 22 tokens and every character string <=5 (7) over 17 characters x {prefix,infix} x {undefined variables off,on}, every truncation/deletion/duplication/swap of every valid corpus program, scaled shapes; every text that compiles is dumped and evaluated (Eval, TryEval cached/uncached) under bindings of every supported type in all event modes; oracle: no panic, one of (program,error), LOOP positions strictly increase.",
         "Texts longer than the bounds are covered only through mutations of valid programs and a handful of scaled shapes; hangs are caught by a 180 s no-progress watchdog.", "4 C06"),
}

NOT_YET = {}

def main():
    props = [json.loads(l) for l in open(os.path.join(ROOT, "properties.jsonl"))]
    checks = []
    na = []
    for p in props:
        pid = p["id"]
        if pid in CHECKS:
            tech, text, note, ref = CHECKS[pid]
            checks.append({
                "property_id": pid,
                "quick_cmd": "./run.sh %s quick" % pid,
                "thorough_cmd": "./run.sh %s thorough" % pid,
                "evidence_file": "evidence/%s.json" % pid,
                "replay_cmd_template": "./run.sh replay {path}",
                "engine": "verifmc",
                "level_claimed": {"category": "model_checking", "text": text, "design_ref": "DESIGN.md §" + ref},
                "level_note": note,
                "technique": tech,
            })
        else:
            na.append({"property_id": pid, "reason": NOT_YET.get(pid, "check not built yet in this round (planned: see DESIGN.md §4 %s); not claimed until it runs" % pid)})
    m = {
        "version": 1,
        "setup_cmd": "./setup.sh",
        "hooks": {
            "guard": "verif",
            "enable": "no hooks are needed: the checker is a separate Go module (mc/) that imports /repo through a replace directive and observes the library through its public API (fetcher/operator callbacks, EventChan, Dump, DumpTable) and reflection; `go build` therefore always compiles /repo's current working tree. The tag name is reserved but no file in /repo carries it.",
            "baseline_off_cmd": "cd /repo && GOFLAGS=-mod=mod GOPROXY=off GOSUMDB=off GOTOOLCHAIN=local go test -json -vet=off -count=1 -timeout 25m ./...",
            "source_commits": [],
            "add_only": True,
        },
        "engines": [{
            "name": "verifmc", "path": "mc/",
            "serves_properties": sorted(CHECKS),
            "kind_free_text": "hand-written bounded-exhaustive explorers in Go: typed program enumerator + configuration/binding enumerators against reference tree-walkers, cooperative scheduler with DFS over interleavings, BFS over call histories; all run the real library",
        }],
        "checks": checks,
        "not_applicable": na,
        "notes": "Every check rebuilds mc/cmd/check against /repo's working tree (run.sh). Genuine defects found are repaired by `fix:` commits in /repo or listed in known_findings.json; see DESIGN.md §8.",
    }
    if not na:
        del m["not_applicable"]
    json.dump(m, open(os.path.join(ROOT, "MANIFEST.json"), "w"), indent=1)
    print("checks:", [c["property_id"] for c in checks], "not claimed:", [n["property_id"] for n in na])

if __name__ == "__main__":
    main()
