#!/usr/bin/env python3
"""Generates /verif/MANIFEST.json from the table below (kept in one place so the
manifest stays valid while checks are added)."""
import json, os
ROOT = os.path.dirname(os.path.dirname(os.path.abspath(__file__)))

CHECKS = {
 "C01": ("stateless exhaustive program-space exploration of the real Compile/Eval against reference evaluator R1",
         "All CORE programs <=7 (thorough 8) nodes and RICH programs <=6 (7) nodes plus repeated-variable variants, wide order-sensitive operators and hand-written extras, optimisations off, x variable-registration modes x event modes x alias spellings x every binding incl. fetch failures, plus every builtin/alias x every operand tuple of arity 0..3; value, error identity and ordered fetch/operator trace compared with a recursive reference evaluator on every execution.",
         "Small-scope hypothesis on tree size; the reference evaluator is the documented semantics; value alphabets {true,false},{0,1} plus sentinel failures.", "4 C01"),
 "C06": ("exhaustive enumeration of source texts (token sequences, character strings, mutations of valid programs) executed on the real Compile/Eval/TryEval/Dump/DumpTable under a panic fence and hang watchdog",
         "Every token sequence <=5 (thorough 6) over 22 tokens, focused alphabets up to 7 (8) tokens and every character string <=5 (7) over 18 characters x {prefix,infix} x {undefined variables off,on}, every truncation/deletion/duplication/swap of every valid corpus program, scaled shapes; every text that compiles is dumped and evaluated (Eval, TryEval cached/uncached) under bindings of every supported type in all event modes; oracle: no panic, one of (program,error), LOOP positions strictly increase.",
         "Texts longer than the bounds are covered only through mutations of valid programs and a handful of scaled shapes; hangs are caught by a 300 s (thorough: 900 s) no-progress watchdog.", "4 C06"),
 "C02": ("stateless exhaustive exploration of programs x all 16 optimisation subsets x cost maps x directive spellings x bindings on the real compiler/evaluator, cross-configuration and reference (R1/R3) agreement",
         "Every CORE <=7 / RICH <=6 program (thorough 7/7) incl. alias spellings, repeated-variable variants and extras under the 16 subsets x events off/on and in undefined-variable mode, 8 extreme cost maps on the Reordering subsets and 5 in-source directive spellings per subset (Dump+DumpTable must equal the programmatic compilation, caller options untouched), evaluated under every value binding: all value-returning configurations agree; total-evaluation success forces that value everywhere; Reordering-off configurations return the left-to-right value whenever it exists.",
         "Small-scope hypothesis; cost maps from a fixed family of extreme maps; bindings over {true,false},{0,1}.", "4 C02"),
 "C03": ("stateless exhaustive exploration; ordered effect trace of the real evaluator (fetcher Get + registered operator calls) compared with reference evaluation of the parsed Dump tree",
         "Every CORE <=7 / RICH <=6 program (thorough 8/7) incl. alias spellings, repeated variables and extras x 16 subsets x events off/on/undefined-variable mode x every binding incl. fetch failures (Eval, and TryEval with everything available): the ordered log of fetches and registered-operator calls (arguments, results, failures) equals left-to-right short-circuit evaluation of the tree Dump shows; only the FastEvaluation two-leaf pairing is tolerated (all per-node choices enumerated).",
         "Independent Dump reader trusted on plain literals; effects of builtin operators are not observable (they are pure), so only fetches and registered operators are traced.", "4 C03"),
 "C04": ("stateless exhaustive exploration of programs x configurations x availability splits x assignments; TryEval answers checked against a table of real Eval results over every completion",
         "Every CORE <=7 / RICH <=6 program (thorough CORE <=8, +ill-typed completions) x 16 subsets x events off/on x all 2^k availability splits x all assignments incl. non-canonical int and nil, each TryEval also on a reused Ctx and through embedding fetchers: a definite TryEval answer equals Eval on every completion where Eval succeeds, equals Eval when everything is available, is stable under larger splits, and no unavailable variable is ever fetched.",
         "Small-scope hypothesis; value domains {true,false},{0,1} (+ one ill-typed value per variable in thorough).", "4 C04"),
 "C05": ("stateless exhaustive exploration against a strong-Kleene three-valued reference evaluator (R2)",
         "Same space as C04 restricted to failure-free pairs: whenever Kleene evaluation is definite TryEval returns exactly that value; otherwise DNE (or an Eval-confirmed value), never an error; TryEvalBool mirrors with ErrDNE.",
         "Small-scope hypothesis; R2 is the reference three-valued semantics.", "4 C05"),
 "C07": ("controlled cooperative scheduler + DFS over all thread interleavings up to a preemption bound (iterative context bounding) and exhaustive enumeration of sequential call histories, on the real Expr",
         "13 shared compiled programs covering every evaluator branch incl. a re-entrant operator; every sequential history of {Eval x bindings, TryEval x splits, Dump, DumpTable} up to depth 4 (5), and every interleaving of 2x1, 2x2 and 3x1 thread/call shapes up to 3/2 (5/3) preemptions with scheduling points at every fetcher/operator callback and call boundary: each call's outcome (value, error, ordered trace, argument stability across a yield) equals its isolated outcome and the public view of the program never changes; auxiliary free-running race-detector pass.",
         "Scheduling granularity is the environment callback; sub-callback races are left to the race-detector pass and the post-call program comparison; preemption-bounded, not all schedules.", "4 C07"),
 "C08": ("exhaustive enumeration of Compile / copy call histories over shared caller configs plus controlled-scheduler exploration of concurrent Compile calls, on the real code",
         "Three caller configs x 15 sources, isolated baselines taken in fresh processes: every history of Compile(config_i, source_j) up to depth 3 (4) leaves every config's public contents unchanged and yields the same program (error text / Dump / DumpTable / behaviour) as the same call made first on fresh equal configs; every CopyConfig/ExtendConf chain up to depth 3 followed by every single mutation on either side leaves the other side unchanged; every interleaving of 2 (unbounded) and 3 (preemption bound 2 / 4) concurrent Compile calls at the stateless-operator callbacks; auxiliary race-detector pass.",
         "Config contents are drawn from three hand-built configs; scheduling points inside Compile exist only at callbacks into the environment.", "4 C08"),
 "C12": ("stateless exhaustive program-space exploration with events read after the evaluation, plus controlled-scheduler enumeration of consumer timings",
         "Every program <=6 (7) nodes over an alphabet with unary/binary/ternary registered operators x 16 subsets x {ReportEvent, Debug} x every binding incl. failures x {Eval, TryEval}: results and Dump equal the event-free compilation; OP_EXEC events of registered operators equal the harness's call log, those of builtins equal R1's application sequence on the Dump tree, every event is truthful, LOOP positions strictly increase, no two events share slice memory; consumer thread under the scheduler takes events at every callback point (preemption bound 4 / 8): contents never depend on timing and never change after delivery.",
         "IsFastOp and the exact set of LOOP events are not asserted; consumer timings below callback granularity are represented by read-at-end (exhaustive) and a scribbling synchronous consumer (auxiliary).", "4 C12"),
 "C09": ("exhaustive enumeration of parameterised program families around every capacity boundary, executed on the real compiler/evaluator against closed-form / R1 results",
         "Every operand count 118..131 (+far values) for each n-ary operator kind, flat and as nested and/or groups that flatten to that count; every node count in 16370..16395 and 32755..32775 in three exact-size shapes incl. deep chains; every CORE/RICH tree <=4 (5) nodes after 6..17 pending operands at two nesting levels; all x 16 subsets x {events off, ReportEvent, Debug} x Eval/TryEval: Compile errs or the value is right; within the limits it must be the value; above them it must be rejected.",
         "Node-count families use a single variable leaf; event-mode size computed from the event-free DumpTable.", "4 C09"),
 "C10": ("stateless exhaustive program-space exploration with call counters in stateful registered operators and an optimizer-relation checker on the parsed Dump tree",
         "Every program <=6 (7) nodes over constants, an ill-typed constant, variables, builtins, declared-stateless and undeclared stateful registered operators (names sorting before/between/after the declared ones) x 16 subsets x 3 evaluations per binding: undeclared operators never run during Compile, Compile never fails, the optimised tree is reachable from the source by the permitted rewrites only, each evaluation equals R1 of that tree with the operators' current ordinals and the ordinals agree afterwards.",
         "Small-scope hypothesis; the permitted-rewrite relation is the statement's two folding rules plus and/or splicing/permutation when those options are on.", "4 C10"),
 "C11": ("explicit-state BFS over registration histories (real GetOrRegisterKey as transition function, canonical key-map states) plus exhaustive evaluation under every reached layout through every context constructor",
         "All injective pre-populations of <=3 names over 9 boundary keys, all registration orders of 4 names (BFS to fixpoint), scaled families 1..n (+hole) for n up to 70 and around 128/256 (thorough: every n<=300 and 4096/32766): returned key = stored key, injective, no reassignment; every complete layout x undefined-mode off/on evaluates the positional expression correctly through NewCtxFromVars, both fetcher constructors and package-level Eval with ExtendConf and unrelated extra bindings; RegVarAndOp under 200 map orders; every convertible Go type under 7 key positions.",
         "Keys drawn from a boundary alphabet of the int16 range.", "4 C11"),
 "C13": ("exhaustive enumeration of literal contents and small programs, Dump -> Compile -> Dump round trip on the real code",
         "Every string <=2 (3) over 20 nasty characters, marker words (fi, if, DNE, ...), long list literals and boundary ints as literal, list element and ConstantMap constant in 7-8 contexts, and every CORE/RICH program <=5 (6) nodes, x 16 subsets x 3 event modes: Dump text recompiles under the same names, the recompiled program agrees with the original on every binding, and Dump of the unoptimised recompilation is the same text.",
         "String literals never contain a double quote (the lexer cannot produce one).", "4 C13"),
 "C14": ("exhaustive enumeration of re-layouts (separator assignment per token gap, deviation-bounded for long sources) and of formatter inputs, against the real lexer/parser/formatter with an independent tokenizer as oracle",
         "Every tree <=4 (5) nodes with nasty string/list literals, prefix and infix: every assignment of 8 separators (none/blank/newline/tab/U+00A0/U+2028/comment/comment with parens+quote) to every gap for short sources, <=2 (3) deviations otherwise; directives honoured before and ignored after the first token; IndentByParentheses applied 1..3 times to layout samples and to every lexable character string <=5 (6) over 17 characters keeps the token/comment sequence and the compiled program.",
         "Whitespace is only removed next to a paren/bracket/comma; the independent tokenizer implements the documented token rules.", "4 C14"),
 "C15": ("exhaustive enumeration of expression trees rendered to infix four ways, compiled by the real infix and prefix parsers",
         "All trees <=5 (6) nodes over one operator per precedence class incl. non-commutative ones, !, calls, if, lists and 7 atoms; all shapes <=7 (9) nodes over one atom; all 16 binary spellings <=4 (5): infix renderings with minimal / full / redundant parentheses and glued spacing compile to the same Dump and DumpTable as the prefix form and evaluate identically.",
         "The minimal-parentheses renderer encodes the statement's precedence table and left associativity; nested unary ! operands are parenthesised.", "4 C15"),
 "C16": ("exhaustive enumeration of programs x single-entry cost maps x all pairs of maps differing in one entry; order laws checked on the parsed Dump trees of the real compiler",
         "Every and/or/not/if/compare tree <=6 (8) nodes with distinct variables and constants, division-bearing operands, plus wide and/or nodes of 2..40 operands (flat and flattened): each variable/operator name and the class defaults priced at every rung of {-100,0,0.5,5,1e3,1e9}, alone and next to one other priced name, other optimisations off/on: Reordering only permutes and/or operand lists, equal-shape siblings keep source order, raising an entry never promotes a mentioning operand over a non-mentioning one, 1e9 puts mentioning operands last, bystanders keep their relative order.",
         "Ladder of 6 cost values; NaN/infinite costs are judged for meaning under C02 only.", "4 C16"),
 "C17": ("exhaustive enumeration of list pairs with padding families across the 100-element switch, on the real operators via Compile/Eval against a map-based set oracle",
         "Every pair of lists <=3 over a 3-element universe for both element types, unpadded and padded (front/back/around/both) to totals {98,99,100,101,150} (thorough adds 50..1000) with either side longer, literal/variable forms, options on/off; every probe for `in` against literal, variable and pre-built set; typed-empty lists, the empty literal and every type mismatch; symmetry of overlap.",
         "3-element universe + disjoint filler (operators only test elements for equality).", "4 C17"),
 "C18": ("exhaustive enumeration of operator x operand tuples over an int64/bool boundary alphabet on the real operators via Compile/Eval against an independent algebra oracle",
         "33 scalar operator names/aliases x counts 0..4 x every tuple over {min,min+1,-2,-1,0,1,2,max-1,max,true,false,\"a\",(1)} x literal/variable x options off/default: wrapping folds, zero divisors, order laws, n-ary eq, boolean folds, count and type errors, alias == named form. One open known finding (and/or short-circuit bypass) is matched by a narrow predicate.",
         "Boundary alphabet of int64, not all values; errors compared by presence.", "4 C18"),
 "C19": ("exhaustive enumeration of version strings / calendar stamps and of all their pairs, encodings computed by the real operators and compared with independent positional / days-from-civil arithmetic",
         "Every version string of <=N components over {0,1,9,10,007,9998,9999} for N=1..4 and the default, three operator names, variable and literal forms: exact base-10000 value, every pair order-preserving, end-to-end comparisons, every rejection in every position; 11 years x 7 days x 3 times under default, day-first and RFC 3339 (+offset) layouts through all 8 date operators: exact Unix seconds, chronological order for every pair, impossible days/times and malformed texts rejected.",
         "Component and calendar alphabets are boundary sets; layouts other than the four modelled ones are outside the oracle.", "4 C19"),
 "C20": ("DFS over scripted random-source answers (every decision sequence of the generator up to a level / deviation bound) plus an exhaustive seed range, each result judged by reference evaluation and by the real engine",
         "rand.New(scripted source): every decision sequence at level <=1, every sequence with <=3 (4) non-default answers at levels 2..4, every seed 0..4000 (100000) at levels 0..6, both result types x 8 option combinations (+GenVariables): the text parses, R1/Kleene evaluation does not fail and equals the reported result, the expression compiles and the engine returns the same value. Draw-count binding keeps the control-flow model in sync on every run. One open known finding (level-0 bare atoms do not compile).",
         "Leaf-value draws use value classes; math/rand's Intn mapping is checked by the draw-count binding.", "4 C20"),
}

NOT_YET = {}

# families added after the later seeded rounds (appended to the level text)
ADDED = {
 "C01": "Also variables named like literals/keywords/operators/markers (True, FALSE, fi, DNE, ...).",
 "C02": "The config also registers a wrong operator under every builtin name and alias.",
 "C03": "Plus nested evaluations: while a registered operator runs, the same compiled program (operand widths 3..40) is evaluated under another binding; the outer trace must still match.",
 "C04": "Also with variables resolved by name, with registered variables in a config that allows undefined ones (there also through the context NewCtxFromVars builds from the available values), and for the one-node programs only infix notation can write.",
 "C05": "Also with variables resolved by name, registered variables next to AllowUndefinedVariable (incl. NewCtxFromVars contexts) and one-node infix programs.",
 "C06": "Bound values include pre-built sets; identifiers and string literals spelled like the engine's markers in 11 operand-position templates.",
 "C07": "Plus 8 sequential-only programs whose list bindings reuse one caller-side buffer with changing contents (lengths 3/64/100/130).",
 "C08": "Also the nil config as a fourth caller config, two names aliased to one key, results compared through a by-name and a by-key fetcher, independence of CopyConfig(nil) results.",
 "C09": "Plus stack-depth family: nested 126-operand sums with 2^k-1, 2^k, 2^k+1 pending operands (k = 3..14) and up to 32500.",
 "C10": "Plus declaration histories: base stateless list (0..3 names, spare capacity 0..2) x two derived configs (same object / CopyConfig / ExtendConf) x one append each in either order.",
 "C11": "RegVarAndOp also in one or two batches on top of every injective pre-keying of <=2 names with keys from {-1, 0..10, 255, 256}.",
 "C12": "Plus the slowest consumer on channels of capacity 0..3 (takes an event only when the evaluator is observed blocked in its send) and NewCtxFromVars contexts with each variable left unbound.",
 "C13": "A program collapsing to a bare variable must still dump to compilable text.",
 "C16": "Also every tree with two same-typed variables merged, and one other name priced at 5e6.",
 "C17": "Plus 8 string universes colliding under common 32-bit hashes and every depth-3 history of 3 contents written in place into one list-variable buffer (lengths 3..256).",
 "C18": "Plus chains of 2..4 unary negations over every operand value.",
 "C20": "Plus variables named like builtin operators and one GenVariables option object reused over every history of 3 value phases of its map.",
}

# families added in rounds 7 and 8 (appended after ADDED)
ADDED2 = {
 "C01": "Rounds 7-8: every comparison spelling over every literal/variable operand form, range checks on one variable, case-variant registered operators (AND, Or, IF), zero-operand operators at the stack-class boundaries, arithmetic over constants that leave int64, the operator sweep under negations.",
 "C02": "Rounds 7-8: the same shared-corpus additions (comparison matrix, range checks, extreme constants) under all 16 subsets.",
 "C03": "Rounds 7-8: pure operators also declared stateless (no run-time call may be skipped), EvalBool with a fetcher that keeps nothing cached, nested evaluation with the context the operator was handed.",
 "C04": "Rounds 7-8: dotted variable names of one another with extra supplied entries, programs <=5 nodes under Debug / both event options, the caller's context.Context (nil, live, cancelled, expired) never changes an answer.",
 "C05": "Rounds 7-8: as C04 (dotted names, Debug, caller context), range checks judged by the Kleene reference.",
 "C06": "Rounds 7-8: contexts NewCtxFromVars built before later registrations on the same config.",
 "C07": "Rounds 7-8: raw-typed configured constants, 130-element in-literals shared by concurrent calls, re-entry with the handed context.",
 "C09": "Rounds 7-8: one Ctx across programs of different stack classes (all ordered pairs / triples), few nodes written with up to 200 000 tokens, xor and - operand counts, ReportEvent and Debug set together.",
 "C10": "Rounds 7-8: every builtin name x every constant operand tuple (arity 0..4) bare and in either branch of an if under all 16 subsets: Compile succeeds, the outcome appears only when reached.",
 "C11": "Rounds 7-8: layouts with a bound but unregistered name next to registered ones, identifiers covering every UTF-8 continuation byte.",
 "C12": "Rounds 7-8: LOOP stack continuity (the previous step's product is on top of the next snapshot), histories with Expr.EventChan replaced before each evaluation.",
 "C13": "Rounds 7-8: long string lists with blanks at every column, CR / U+2028 in literals, a 64 KiB line, nesting chains of 300/1100 (1600) levels.",
 "C14": "Rounds 7-8: header lines of up to 300 KB ahead of and between directive lines.",
 "C15": "Rounds 7-8: a free-running race-detector pass compiling 9000 infix sources concurrently, named calls with 1..200 arguments around the 127 limit.",
 "C16": "Rounds 7-8: costs written before the priced names are registered (undefined-variable mode, ExtendConf from a costs-only base), xor / n-ary = / + / registered variadic operators keep their operand order.",
 "C18": "Rounds 7-8: nested boolean folds (every ordered pair of and/or/xor spellings), wide folds of 5..127 operands with one deviating operand at every position.",
 "C19": "Rounds 7-8: cross-layout matrix (every calendar day under 7 renderings x 8 layouts x 6 names: the layout the call names decides).",
 "C20": "Rounds 7-8: every result also evaluated through NewCtxFromVars, several GenVariables maps in one call, levels 8..129.",
}

def main():
    props = [json.loads(l) for l in open(os.path.join(ROOT, "properties.jsonl"))]
    checks = []
    na = []
    for p in props:
        pid = p["id"]
        if pid in CHECKS:
            tech, text, note, ref = CHECKS[pid]
            if pid in ADDED:
                text = text.rstrip() + " " + ADDED[pid]
            if pid in ADDED2:
                text = text.rstrip() + " " + ADDED2[pid]
            checks.append({
                "property_id": pid,
                "quick_cmd": "./run.sh %s quick" % pid,
                "thorough_cmd": "./run.sh %s thorough" % pid,
                "evidence_file": "evidence/%s.json" % pid,
                "replay_cmd_template": "./run.sh replay {path}",
                "engine": "verifmc",
                "level_claimed": {"category": "model_checking", "text": text, "design_ref": "DESIGN.md §" + ref},
                "level_note": note,
                "technique": tech,
            })
        else:
            na.append({"property_id": pid, "reason": NOT_YET.get(pid, "check not built yet in this round (planned: see DESIGN.md §4 %s); not claimed until it runs" % pid)})
    m = {
        "version": 1,
        "setup_cmd": "./setup.sh",
        "hooks": {
            "guard": "verif",
            "enable": "no hooks are needed: the checker is a separate Go module (mc/) that imports /repo through a replace directive and observes the library through its public API (fetcher/operator callbacks, EventChan, Dump, DumpTable) and reflection; `go build` therefore always compiles /repo's current working tree. The tag name is reserved but no file in /repo carries it.",
            "baseline_off_cmd": "cd /repo && GOFLAGS=-mod=mod GOPROXY=off GOSUMDB=off GOTOOLCHAIN=local go test -json -vet=off -count=1 -timeout 25m ./...",
            "source_commits": [],
            "add_only": True,
        },
        "engines": [{
            "name": "verifmc", "path": "mc/",
            "serves_properties": sorted(CHECKS),
            "kind_free_text": "hand-written bounded-exhaustive explorers in Go: typed program enumerator + configuration/binding enumerators against reference tree-walkers, cooperative scheduler with DFS over interleavings, BFS over call histories; all run the real library",
        }],
        "checks": checks,
        "not_applicable": na,
        "notes": "Every check rebuilds mc/cmd/check against /repo's working tree (run.sh). Genuine defects found are repaired by `fix:` commits in /repo or listed in known_findings.json; see DESIGN.md §8.",
    }
    # every property is claimed: the list stays, empty
    json.dump(m, open(os.path.join(ROOT, "MANIFEST.json"), "w"), indent=1)
    print("checks:", [c["property_id"] for c in checks], "not claimed:", [n["property_id"] for n in na])

if __name__ == "__main__":
    main()
