#!/usr/bin/env python3
"""Runs the quick checks against a BEHAVIOUR-PRESERVING change (a control that
must stay silent). usage: safecheck.py <dir with patch.diff notes.md> <id> [check ids... (default: all)]
Everything happens in a scratch worktree; /repo and /verif/evidence are untouched.
Result: /verif/seeded/controls/<id>/{patch.diff,notes.md,meta.json}"""
import json, os, re, shutil, subprocess, sys, time

ENV = dict(os.environ, GOFLAGS="-mod=mod", GOPROXY="off", GOSUMDB="off", GOTOOLCHAIN="local")
ALL = ["C%02d" % i for i in range(1, 21)]


def sh(cmd, cwd=None, timeout=1500, env=ENV):
    try:
        p = subprocess.run(cmd, shell=True, cwd=cwd, env=env, stdout=subprocess.PIPE, stderr=subprocess.STDOUT, timeout=timeout)
        return p.returncode, p.stdout.decode(errors="replace")
    except subprocess.TimeoutExpired as e:
        return 124, (e.stdout or b"").decode(errors="replace") + "\nTIMEOUT"


def main():
    cand, sid = sys.argv[1], sys.argv[2]
    checks = [c for c in sys.argv[3:] if c.startswith("C")] or ALL
    wt = "/tmp/safewt-%s" % sid
    sh("git -C /repo worktree remove --force %s" % wt)
    rc, out = sh("git -C /repo worktree add -q --detach %s HEAD" % wt)
    assert rc == 0, out
    meta = {"id": sid, "kind": "behaviour-preserving control (must stay silent)", "checks": {}}
    try:
        rc, out = sh("git apply %s" % os.path.join(cand, "patch.diff"), cwd=wt)
        if rc != 0:
            meta["status"] = "patch does not apply"; print(sid, meta["status"], out[-300:]); return meta
        rc, diff = sh("git diff HEAD", cwd=wt)
        rc, out = sh("go build ./... && timeout 600 go test -vet=off -count=1 ./...", cwd=wt, timeout=800)
        if rc != 0:
            meta["status"] = "rejected: does not build or the suite fails"; print(sid, meta["status"], out[-300:]); return meta
        alarms = []
        for chk in checks:
            t0 = time.time()
            vdir = os.environ.get("VERIF_SNAPSHOT", "/verif")
            rc, out = sh("./run.sh %s quick" % chk, cwd=vdir, env=dict(ENV, VERIF_REPO=wt, VERIF_OUT="/tmp/saferoot-%s" % sid))
            kinds = sorted(set(re.findall(r"^\s+\[([^\]]+)\]", out, re.M)))
            first = [l.strip() for l in out.splitlines() if l.strip().startswith("[")][:2]
            meta["checks"][chk] = {"exit": rc, "violation_kinds": kinds[:6], "first": first, "wall_s": round(time.time() - t0, 1)}
            if rc != 0:
                alarms.append(chk)
                print(sid, chk, "ALARM exit", rc, kinds[:4], (first[0][:200] if first else out[-200:]))
        meta["alarms"] = alarms
        meta["status"] = "silent" if not alarms else "ALARM"
        dst = os.path.join("/verif/seeded/controls", sid)
        os.makedirs(dst, exist_ok=True)
        open(os.path.join(dst, "patch.diff"), "w").write(diff)
        if os.path.exists(os.path.join(cand, "notes.md")) and os.path.abspath(cand) != os.path.abspath(dst):
            shutil.copy(os.path.join(cand, "notes.md"), os.path.join(dst, "notes.md"))
        json.dump(meta, open(os.path.join(dst, "meta.json"), "w"), indent=1)
        if alarms:
            # keep the replays of alarms for inspection
            shutil.copytree("/tmp/saferoot-%s/replays" % sid, os.path.join("/tmp/safealarms", sid), dirs_exist_ok=True)
        return meta
    finally:
        shutil.rmtree("/tmp/saferoot-%s" % sid, ignore_errors=True)
        sh("git -C /repo worktree remove --force %s" % wt)
        shutil.rmtree(wt, ignore_errors=True)


if __name__ == "__main__":
    m = main()
    print(json.dumps({k: m.get(k) for k in ("id", "status", "alarms")}))
