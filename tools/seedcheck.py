#!/usr/bin/env python3
"""Confirms a candidate property-breaking change produced by a sub-agent and
measures which checks catch it.

usage: seedcheck.py <candidate dir with patch.diff demo_test.go notes.md> <id e.g. C01-1> [extra check ids...]

Everything happens in a scratch worktree of /repo under /tmp (removed at the
end); /repo itself is never touched. Steps:
  1. apply the patch (3-way) on /repo's HEAD; re-export it as a clean diff
  2. the library's own suite passes with the change
  3. the demonstration fails with the change and passes without it
  4. run the property's quick check (and any extra checks) against the changed tree
Result: /verif/seeded/<id>/{patch.diff,demo_test.go,notes.md,meta.json}
"""
import json, os, re, shutil, subprocess, sys, time

ENV = dict(os.environ, GOFLAGS="-mod=mod", GOPROXY="off", GOSUMDB="off", GOTOOLCHAIN="local")


def sh(cmd, cwd=None, timeout=900, env=ENV):
    try:
        p = subprocess.run(cmd, shell=True, cwd=cwd, env=env, stdout=subprocess.PIPE, stderr=subprocess.STDOUT, timeout=timeout)
        return p.returncode, p.stdout.decode(errors="replace")
    except subprocess.TimeoutExpired as e:
        return 124, (e.stdout or b"").decode(errors="replace") + "\nTIMEOUT"


def main():
    cand, sid = sys.argv[1], sys.argv[2]
    extra = sys.argv[3:]
    prop = sid.split("-")[0]
    wt = "/tmp/seedwt-%s" % sid
    sh("git -C /repo worktree remove --force %s" % wt)
    rc, out = sh("git -C /repo worktree add -q --detach %s HEAD" % wt)
    assert rc == 0, out
    meta = {"id": sid, "property": prop, "source": "independent sub-agent given only the property text and a scratch worktree", "ran": []}
    try:
        patch = os.path.join(cand, "patch.diff")
        ported = os.path.join("/verif/seeded", sid, "patch.diff")
        if os.path.exists(ported) and "--fresh" not in extra:
            patch = ported  # already rebased on the repaired tree
        rc, out = sh("git apply --3way %s" % patch, cwd=wt)
        if rc != 0 or "conflicts" in out:
            meta["status"] = "patch does not apply on the repaired tree (needs a manual port)"
            print(sid, meta["status"]); print(out[-600:])
            return meta
        rc, diff = sh("git diff HEAD", cwd=wt)
        sh("git reset -q", cwd=wt)
        rc, out = sh("go build ./...", cwd=wt)
        if rc != 0:
            meta["status"] = "does not build"; print(sid, meta["status"], out[-400:]); return meta
        rc, out = sh("timeout 600 go test -vet=off -count=1 ./...", cwd=wt, timeout=700)
        meta["ran"].append({"cmd": "go test -vet=off -count=1 ./... (with the change)", "exit": rc, "tail": out[-200:]})
        if rc != 0:
            meta["status"] = "rejected: the library's own suite fails with the change"
            print(sid, meta["status"]); return meta
        shutil.copy(os.path.join(cand, "demo_test.go"), os.path.join(wt, "zz_seeded_demo_test.go"))
        rc, out = sh("timeout 300 go test -vet=off -count=1 -run 'TestSeeded' ./...", cwd=wt, timeout=400)
        meta["ran"].append({"cmd": "go test -run TestSeeded (with the change)", "exit": rc, "tail": out[-300:]})
        if rc == 0:
            meta["status"] = "rejected: the demonstration passes with the change"
            print(sid, meta["status"]); return meta
        # without the change
        sh("git checkout HEAD -- .", cwd=wt)
        rc, out = sh("timeout 300 go test -vet=off -count=1 -run 'TestSeeded' ./...", cwd=wt, timeout=400)
        meta["ran"].append({"cmd": "go test -run TestSeeded (without the change)", "exit": rc, "tail": out[-300:]})
        if rc != 0:
            meta["status"] = "rejected: the demonstration fails on the unchanged tree"
            print(sid, meta["status"]); print(out[-500:]); return meta
        os.remove(os.path.join(wt, "zz_seeded_demo_test.go"))
        # keep it
        dst = os.path.join("/verif/seeded", sid)
        os.makedirs(dst, exist_ok=True)
        open(os.path.join(dst, "patch.diff"), "w").write(diff)
        shutil.copy(os.path.join(cand, "demo_test.go"), os.path.join(dst, "demo_test.go"))
        if os.path.exists(os.path.join(cand, "notes.md")):
            shutil.copy(os.path.join(cand, "notes.md"), os.path.join(dst, "notes.md"))
        # run checks against the changed tree
        rc, out = sh("git apply %s" % os.path.join(dst, "patch.diff"), cwd=wt)
        assert rc == 0, out
        caught = {}
        for chk in [prop] + [c for c in extra if c.startswith("C")]:
            t0 = time.time()
            # VERIF_SNAPSHOT: run the checks from a frozen copy of /verif (so that edits in progress do not disturb the measurement)
            vdir = os.environ.get("VERIF_SNAPSHOT", "/verif")
            rc, out = sh("./run.sh %s quick" % chk, cwd=vdir, timeout=1500,
                         env=dict(ENV, VERIF_REPO=wt, VERIF_OUT="/tmp/seedroot-%s" % sid))
            kinds = sorted(set(re.findall(r"^\s+\[([^\]]+)\]", out, re.M)))
            caught[chk] = {"exit": rc, "violation_kinds": kinds[:8], "wall_s": round(time.time() - t0, 1)}
            first = [l for l in out.splitlines() if l.strip().startswith("[")][:1]
            print(sid, chk, "exit", rc, kinds[:4], first[0][:160] if first else "")
        meta["checks"] = caught
        meta["status"] = "confirmed"
        meta["caught_by"] = [c for c, v in caught.items() if v["exit"] == 1]
        shutil.rmtree("/tmp/seedroot-%s" % sid, ignore_errors=True)
        return meta
    finally:
        dst = os.path.join("/verif/seeded", sid)
        if meta.get("status") == "confirmed":
            notes = ""
            p = os.path.join(cand, "notes.md")
            if os.path.exists(p):
                notes = open(p).read()
            m = re.search(r"(?is)(needs|what it needs|to manifest)[^\n]*\n(.{0,600})", notes)
            meta["needs_to_manifest"] = (m.group(0)[:700] if m else "see notes.md")
            # keep the history of measurements (a change missed at first and caught after strengthening stays visible)
            old = os.path.join(dst, "meta.json")
            hist = []
            if os.path.exists(old):
                try:
                    om = json.load(open(old))
                    hist = om.get("measurements", [])
                    for k in ("summary", "needs_to_manifest", "breaks_property"):
                        if k in om and k not in meta:
                            meta[k] = om[k]
                except Exception:
                    pass
            hist.append({"at": time.strftime("%Y-%m-%d %H:%M"), "checks_from": os.environ.get("VERIF_SNAPSHOT", "/verif (working tree)"), "caught_by": meta.get("caught_by", [])})
            meta["measurements"] = hist
            json.dump(meta, open(os.path.join(dst, "meta.json"), "w"), indent=1)
        sh("git -C /repo worktree remove --force %s" % wt)
        shutil.rmtree(wt, ignore_errors=True)


if __name__ == "__main__":
    m = main()
    print(json.dumps({k: m.get(k) for k in ("id", "status", "caught_by")}))
