#!/usr/bin/env python3
"""Hand-written one-line summaries of the seeded changes (what / what it needs
to manifest), merged into seeded/<id>/meta.json."""
import json, os
ROOT = os.path.dirname(os.path.dirname(os.path.abspath(__file__)))
S = {
 "C01-1": ("isAndOpNode/isOrOpNode look up a new logic-operator table that misses the aliases && and ||: their operands get no short-circuit flags, so Eval evaluates every operand",
           "the && / || spelling, an earlier operand that decides the result and a later operand that fails (or has an effect)"),
 "C01-2": ("Eval's per-case error checks hoisted into one check after the switch; the cond case ends with continue, so the error of a non-boolean if-condition is dropped and the true branch runs",
           "a non-boolean if condition whose true branch starts with a variable or zero-operand call"),
 "C02-1": ("Compile runs check() before optimize(): and/or groups that exceed 127 operands only after ReduceNesting are no longer rejected and childCnt (int8) wraps",
           "nested same-kind and/or groups, each <=127 wide, that flatten to >127 operands under ReduceNesting"),
 "C02-2": ("parseConfig collects directive entries into enabled/disabled lists and applies all :false before all :true, losing source order",
           "a directive that switches an option off after an earlier entry switched it on, e.g. optimize:true, reordering:false"),
 "C03-1": ("calAndSetShortCircuit classifies parents through a helper that knows and && or || but not & and |: children of & / | get no short-circuit flags (values stay right, effects do not)",
           "the one-character alias, a deciding operand that is not the last, a node that is not a two-leaf fast operator"),
 "C03-2": ("fast-operator path merges the two `if err != nil` checks after both leaf fetches: a failing first fetch is overwritten by a succeeding second one",
           "FastEvaluation, a two-leaf operator whose first variable's Get fails and whose second succeeds"),
 "C04-1": ("fetched values are passed through UnifyType in Eval's variable case and in TryEval's proxy, but not in Eval's inlined fast-operator fetches",
           "a fetcher that hands back a non-canonical value (plain Go int), FastEvaluation, the variable as direct operand of a type-sensitive two-leaf operator"),
 "C04-2": ("TryEval keeps the operand stack of deep expressions (maxStackSize > 16) in a new Expr field instead of allocating per call",
           "a deep expression and two overlapping TryEval calls on one shared Expr"),
 "C05-1": ("TryEval keeps its operand stack in a new Expr.tryStack field",
           "two TryEval calls on the same compiled Expr that overlap (one parked in a fetcher callback while the other runs)"),
 "C05-2": ("a node.opKind field filled at parse time from a table that misses && and ||; TryEval's proxy and parent flags use it",
           "the && / || spelling, TryEval, an unavailable operand next to the deciding one"),
 "C07-1": ("a spare operand stack preallocated on the Expr for deep expressions, handed out by CAS; release decides ownership by slice length, so a non-owner clears the busy flag",
           "stack depth > 16 and three overlapping calls: A in flight, B starts and finishes, C starts while A is still in flight"),
 "C07-2": ("overlap's large-list path sorts its operand slices in place (merge scan instead of a temporary map): the compiled constant list is rewritten by the first Eval",
           "overlap on its >=100-element path with an unordered list literal that survives folding"),
 "C08-1": ("newParser only copies the caller's Config when the source starts with ;;;; — a directive after an ordinary comment is written into the caller's CompileOptions",
           "a directive line preceded by an ordinary comment line, and a config that is reused afterwards"),
 "C08-2": ("per-compilation config copies come from a sync.Pool whose reset leaves StatelessOperators untouched, so stateless declarations leak between configs",
           "an earlier Compile with a config declaring f stateless, then a Compile with another config where f is registered but not declared"),
 "C10-1": ("constant folding memoises folded calls keyed by fmt.Sprintf(\"%s%v\"): int64(1) and \"1\" collide, a failing constant call takes the result of a look-alike",
           "two cooperating constant sub-expressions in one source, the succeeding look-alike visited first"),
 "C10-2": ("isStatelessOp uses sort.SearchStrings without the equality check: an undeclared operator whose name sorts at or before a declared one is treated as stateless",
           "a non-empty stateless list, an undeclared operator name sorting before a declared one, constant-only arguments"),
 "C11-1": ("GetOrRegisterKey gets a bitset fast path for <=64 entries in which key 64 is lost (1<<64 == 0): the 65th registration reuses key 64",
           "a key map holding exactly the keys 1..64"),
 "C11-2": ("package-level Eval always prepends RegVarAndOp(vals) before the caller's options: generated keys collide with explicit keys brought in by ExtendConf",
           "Eval with an option carrying explicit keys, extra unrelated names in vals, keys in 0..255"),
 "C16-1": ("sort.SliceStable replaced by sort.Slice plus a tie-break on astNode.idx, which is still 0 while the optimizer runs",
           "an and/or with >=13 operands (pdqsort's insertion-sort threshold) with tied costs"),
 "C16-2": ("getCosts treats a configured cost of exactly 0 as missing (v != 0 instead of comma-ok)",
           "a CostsMap entry equal to 0 and a sibling whose cost lies inside the resulting jump"),
 "C19-1": ("version encoding accumulated in float64 as a weighted sum",
           "valid length 4 and a leading component >= 9008 (beyond 2^53)"),
 "C19-2": ("a fast path for the default date layouts validates day <= 31 only and lets time.Date roll impossible days over",
           "a nonexistent day 29-31 (2023-02-30, 2100-02-29, 2023-04-31) in a default-layout input"),
 "C20-1": ("n-ary eq rewritten as a neighbour-comparison loop that overwrites its result: a mismatch between the first two operands is forgotten; the generator computes its reported result through the same operator",
           "a 3- or 4-ary eq whose first operand differs from the rest, and a checker with its own reference semantics"),
 "C20-2": ("the generator's three-valued execOp only runs when EnableVariable is also set, while leaves still emit DNE variables with EnableTryEval alone",
           "TryEval/DNE variables on, EnableVariable off"),
 "C06-1": ("Compile validates the AST before optimizing (like C02-1) with a recount after optimization",
           "two nested same-kind groups of >=64 operands under a non-root parent, ReduceNesting on"),
 "C06-2": ("the infix operand-count guard is restructured so that a derived (function-call) operand count is no longer checked for being negative",
           "infix, a starved fixed-arity operator inside a call's parentheses after earlier operands: 1 + 2 f(*)"),
 "C09-1": ("check() before optimize() (fail-fast refactor)", "and/or groups that exceed 127 operands only after flattening"),
 "C09-2": ("maxStackSize is updated only for constant/variable/fast-operator nodes; a zero-operand operator call also pushes",
           "a registered zero-operand operator alone at the peak depth exactly at the 8->9 or 16->17 boundary"),
 "C12-1": ("the Params copy of an OP_EXEC event is allocated once per operator node when the wrapper is built, not per call",
           "the same Expr evaluated twice with different bindings while the consumer still holds the earlier events"),
 "C12-2": ("the event-mode size estimate counts a fast operator as 3 slots instead of 4",
           "FastEvaluation and a program of ~25k-32k nodes that is mostly two-leaf operators"),
 "C13-1": ("Dump's re-indentation decides 'inside a string literal' per line from the parity of quotes on that line",
           "a string literal with two or more line breaks inside a nested sub-expression"),
 "C13-2": ("constant lists of >=16 elements under `in` are replaced by hash sets during FastEvaluation; dumpLeafNode cannot print them",
           "FastEvaluation, `in` with a variable first operand and a literal list of >=16 elements"),
 "C14-1": ("the lexer's white-space test gets an ASCII fast path that omits vertical tab and form feed",
           "a \\v or \\f between tokens"),
 "C14-2": ("IndentByParentheses drops its token-start flag: a quote opens a literal only when the previous state is not 'normal'",
           "a string literal directly after another literal or after a comma, containing double blanks, a paren or a semicolon"),
 "C15-1": ("in infix mode a signed integer directly after an operand is split into operator and number",
           "an infix [..] list with a signed element in a non-first position"),
 "C15-2": ("relational operators get a precedence level above equality (C style)",
           "an unparenthesised equality operator followed by a relational one: f == a < b"),
 "C17-1": ("overlap's lookup maps come from sync.Pools and are wiped only before `return false`",
           "a large-list overlap that returns true followed by a large-list overlap that should be false and scans a stale member"),
 "C17-2": ("the []string hashing path pre-filters by a 64-bit bitmask of string lengths (1<<len is 0 for len >= 64)",
           "string lists totalling >=100 elements whose only shared elements are >=64 bytes long"),
 "C18-1": ("between implemented as one unsigned comparison uint64(v-a) <= uint64(b-a)",
           "descending bounds (a > b)"),
 "C18-2": ("logic.execute counts true operands: xor becomes 'exactly one' instead of parity",
           "xor with three or more operands and an odd number >= 3 of them true"),
}
n = 0
for sid, (what, needs) in S.items():
    f = os.path.join(ROOT, "seeded", sid, "meta.json")
    if not os.path.exists(f):
        continue
    m = json.load(open(f))
    m["summary"] = what
    m["needs_to_manifest"] = needs
    m["breaks_property"] = m["property"]
    json.dump(m, open(f, "w"), indent=1)
    n += 1
print("updated", n)
