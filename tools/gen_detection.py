#!/usr/bin/env python3
"""Regenerates the detection table of DESIGN.md §7 from seeded/*/meta.json."""
import glob, json, os, re
ROOT = os.path.dirname(os.path.dirname(os.path.abspath(__file__)))
rows = []
for f in sorted(glob.glob(os.path.join(ROOT, "seeded", "*", "meta.json"))):
    m = json.load(open(f))
    notes = os.path.join(os.path.dirname(f), "notes.md")
    what = m.get("summary", "")
    if not what and os.path.exists(notes):
        txt = open(notes).read()
        # first non-heading paragraph
        for para in re.split(r"\n\s*\n", txt):
            p = para.strip()
            if p and not p.startswith("#"):
                what = re.sub(r"\s+", " ", p)[:220]
                break
    caught = m.get("caught_by") or []
    kinds = []
    for c in caught:
        kinds += (m.get("checks", {}).get(c, {}).get("violation_kinds") or [])[:2]
    rows.append("| %s | %s | %s | %s |" % (m["id"], what.replace("|", "/"), ", ".join(caught) if caught else "**not caught**", ", ".join(sorted(set(kinds)))[:80]))
table = ["| change | what it does | caught by (quick tier) | violation kinds |", "|---|---|---|---|"] + rows
d = open(os.path.join(ROOT, "DESIGN.md")).read()
d = re.sub(r"(<!-- DETECTION-TABLE-BEGIN -->\n).*?(<!-- DETECTION-TABLE-END -->)", lambda m: m.group(1) + "\n".join(table) + "\n" + m.group(2), d, flags=re.S)
open(os.path.join(ROOT, "DESIGN.md"), "w").write(d)
print(len(rows), "rows")
