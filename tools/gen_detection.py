#!/usr/bin/env python3
"""Regenerates the detection table of DESIGN.md §7 from seeded/*/meta.json."""
import glob, json, os, re
ROOT = os.path.dirname(os.path.dirname(os.path.abspath(__file__)))
# round-1 changes that the checks of the time missed (measured before meta.json kept a history)
R1_MISSED = {"C04-1"}
# round-1 changes for which a miss was predicted from the description and the check was strengthened before the first measurement
R1_PRE = {"C06-2", "C09-2", "C12-1", "C13-2", "C14-1", "C14-2", "C15-1", "C17-2"}
rows = []
for f in sorted(glob.glob(os.path.join(ROOT, "seeded", "*", "meta.json"))):
    m = json.load(open(f))
    notes = os.path.join(os.path.dirname(f), "notes.md")
    what = m.get("summary", "")
    if not what and os.path.exists(notes):
        txt = open(notes).read()
        # first non-heading paragraph
        for para in re.split(r"\n\s*\n", txt):
            p = para.strip()
            if p and not p.startswith("#"):
                what = re.sub(r"\s+", " ", p)[:220]
                break
    caught = m.get("caught_by") or []
    kinds = []
    for c in caught:
        kinds += (m.get("checks", {}).get(c, {}).get("violation_kinds") or [])[:2]
    ms = m.get("measurements", [])
    first = "caught" if (not ms or ms[0].get("caught_by")) else "missed, then checks strengthened"
    if m["id"] in R1_MISSED:
        first = "missed, then checks strengthened"
    if m["id"] in R1_PRE:
        first = "miss predicted from its description; check strengthened before measuring"
    rows.append("| %s | %s | %s | %s | %s |" % (m["id"], what.replace("|", "/"), m.get("needs_to_manifest", "").replace("|", "/")[:160], first, ", ".join(caught) if caught else "**not caught**"))
table = ["| change | what it does | needs | first measurement | caught by now (quick tier) |", "|---|---|---|---|---|"] + rows
d = open(os.path.join(ROOT, "DESIGN.md")).read()
d = re.sub(r"(<!-- DETECTION-TABLE-BEGIN -->\n).*?(<!-- DETECTION-TABLE-END -->)", lambda m: m.group(1) + "\n".join(table) + "\n" + m.group(2), d, flags=re.S)
open(os.path.join(ROOT, "DESIGN.md"), "w").write(d)
print(len(rows), "rows")
