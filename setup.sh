#!/bin/bash
# Run once after a fresh restore, offline: warms the Go build cache by
# building the checker from files on disk.
set -u
export GOFLAGS=-mod=mod GOPROXY=off GOSUMDB=off GOTOOLCHAIN=local
ROOT="$(cd "$(dirname "$0")" && pwd)"
mkdir -p "$ROOT/.bin" "$ROOT/evidence" "$ROOT/replays"
cd "$ROOT/mc" && CGO_ENABLED=0 go build -o "$ROOT/.bin/check.setup" ./cmd/check && rm -f "$ROOT/.bin/check.setup"
# warm the race-instrumented build used by the auxiliary race passes
cd "$ROOT/mc" && CGO_ENABLED=1 go build -race -o "$ROOT/.bin/racepass.setup" ./cmd/racepass && rm -f "$ROOT/.bin/racepass.setup"
exit 0
