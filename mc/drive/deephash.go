package drive

import (
	"fmt"
	"math"
	"reflect"
	"sort"
	"strings"
)

// DeepDump renders everything reachable from v (including unexported
// fields) into a canonical text: scalars by value, strings, slices and maps
// by content (map entries sorted), pointers by the content they point to
// (cycles cut), funcs by code pointer, channels by identity. Two dumps are
// equal iff no reachable field changed. It uses only reflection, so it also
// covers fields a future version of the library may add.
func DeepDump(v interface{}) string {
	var sb strings.Builder
	d := &dumper{sb: &sb, seen: map[uintptr]int{}}
	d.walk(reflect.ValueOf(v), 0)
	return sb.String()
}

// DeepHash hashes everything DeepDump would print (same traversal, written
// for speed: no text is built).
func DeepHash(v interface{}) uint64 {
	h := &hasher{h: 14695981039346656037, seen: map[uintptr]int{}}
	h.walk(reflect.ValueOf(v), 0)
	return h.h
}

type hasher struct {
	h    uint64
	seen map[uintptr]int
}

func (h *hasher) b(x byte) { h.h = (h.h ^ uint64(x)) * 1099511628211 }
func (h *hasher) u(x uint64) {
	for i := 0; i < 8; i++ {
		h.b(byte(x >> (8 * i)))
	}
}
func (h *hasher) s(x string) {
	h.u(uint64(len(x)))
	for i := 0; i < len(x); i++ {
		h.b(x[i])
	}
}

func (h *hasher) walk(v reflect.Value, depth int) {
	if !v.IsValid() {
		h.b(0)
		return
	}
	if depth > 200 {
		h.b(255)
		return
	}
	h.b(byte(v.Kind()))
	switch v.Kind() {
	case reflect.Bool:
		if v.Bool() {
			h.b(1)
		} else {
			h.b(2)
		}
	case reflect.Int, reflect.Int8, reflect.Int16, reflect.Int32, reflect.Int64:
		h.u(uint64(v.Int()))
	case reflect.Uint, reflect.Uint8, reflect.Uint16, reflect.Uint32, reflect.Uint64, reflect.Uintptr:
		h.u(v.Uint())
	case reflect.Float32, reflect.Float64:
		h.u(math.Float64bits(v.Float()))
	case reflect.String:
		h.s(v.String())
	case reflect.Func, reflect.Chan:
		if v.IsNil() {
			h.b(0)
		} else {
			h.u(uint64(v.Pointer()))
		}
	case reflect.Interface:
		if v.IsNil() {
			h.b(0)
		} else {
			e := v.Elem()
			h.s(e.Type().String())
			h.walk(e, depth+1)
		}
	case reflect.Ptr:
		if v.IsNil() {
			h.b(0)
			return
		}
		p := v.Pointer()
		if n, ok := h.seen[p]; ok {
			h.b(3)
			h.u(uint64(n))
			return
		}
		h.seen[p] = len(h.seen)
		h.walk(v.Elem(), depth+1)
	case reflect.Struct:
		for i := 0; i < v.NumField(); i++ {
			h.walk(v.Field(i), depth+1)
		}
	case reflect.Slice:
		if v.IsNil() {
			h.b(0)
			return
		}
		n := v.Len()
		h.u(uint64(n))
		switch v.Type().Elem().Kind() {
		case reflect.Int64:
			for i := 0; i < n; i++ {
				h.u(uint64(v.Index(i).Int()))
			}
		case reflect.String:
			for i := 0; i < n; i++ {
				h.s(v.Index(i).String())
			}
		default:
			for i := 0; i < n; i++ {
				h.walk(v.Index(i), depth+1)
			}
		}
	case reflect.Array:
		for i := 0; i < v.Len(); i++ {
			h.walk(v.Index(i), depth+1)
		}
	case reflect.Map:
		if v.IsNil() {
			h.b(0)
			return
		}
		// order independent: sum of entry hashes
		var sum uint64
		it := v.MapRange()
		for it.Next() {
			e := &hasher{h: 14695981039346656037, seen: h.seen}
			e.walk(it.Key(), depth+1)
			e.walk(it.Value(), depth+1)
			sum += e.h
		}
		h.u(uint64(v.Len()))
		h.u(sum)
	}
}

type dumper struct {
	sb   *strings.Builder
	seen map[uintptr]int
}

func (d *dumper) walk(v reflect.Value, depth int) {
	if !v.IsValid() {
		d.sb.WriteString("<nil>")
		return
	}
	if depth > 200 {
		d.sb.WriteString("<deep>")
		return
	}
	switch v.Kind() {
	case reflect.Bool:
		fmt.Fprintf(d.sb, "%v", v.Bool())
	case reflect.Int, reflect.Int8, reflect.Int16, reflect.Int32, reflect.Int64:
		fmt.Fprintf(d.sb, "%d", v.Int())
	case reflect.Uint, reflect.Uint8, reflect.Uint16, reflect.Uint32, reflect.Uint64, reflect.Uintptr:
		fmt.Fprintf(d.sb, "%du", v.Uint())
	case reflect.Float32, reflect.Float64:
		fmt.Fprintf(d.sb, "f%x", math.Float64bits(v.Float()))
	case reflect.String:
		fmt.Fprintf(d.sb, "%q", v.String())
	case reflect.Func:
		if v.IsNil() {
			d.sb.WriteString("func(nil)")
		} else {
			fmt.Fprintf(d.sb, "func@%x", v.Pointer())
		}
	case reflect.Chan:
		fmt.Fprintf(d.sb, "chan@%x", v.Pointer())
	case reflect.Interface:
		if v.IsNil() {
			d.sb.WriteString("iface(nil)")
		} else {
			e := v.Elem()
			d.sb.WriteString(e.Type().String() + ":")
			d.walk(e, depth+1)
		}
	case reflect.Ptr:
		if v.IsNil() {
			d.sb.WriteString("ptr(nil)")
			return
		}
		p := v.Pointer()
		if n, ok := d.seen[p]; ok {
			fmt.Fprintf(d.sb, "^%d", n)
			return
		}
		d.seen[p] = len(d.seen)
		d.sb.WriteString("&")
		d.walk(v.Elem(), depth+1)
	case reflect.Struct:
		d.sb.WriteString("{")
		for i := 0; i < v.NumField(); i++ {
			if i > 0 {
				d.sb.WriteString(",")
			}
			d.sb.WriteString(v.Type().Field(i).Name + "=")
			d.walk(v.Field(i), depth+1)
		}
		d.sb.WriteString("}")
	case reflect.Slice:
		if v.IsNil() {
			d.sb.WriteString("slice(nil)")
			return
		}
		fmt.Fprintf(d.sb, "[%d:", v.Len())
		for i := 0; i < v.Len(); i++ {
			if i > 0 {
				d.sb.WriteString(",")
			}
			d.walk(v.Index(i), depth+1)
		}
		d.sb.WriteString("]")
	case reflect.Array:
		d.sb.WriteString("[")
		for i := 0; i < v.Len(); i++ {
			if i > 0 {
				d.sb.WriteString(",")
			}
			d.walk(v.Index(i), depth+1)
		}
		d.sb.WriteString("]")
	case reflect.Map:
		if v.IsNil() {
			d.sb.WriteString("map(nil)")
			return
		}
		type kv struct{ k, v string }
		var items []kv
		it := v.MapRange()
		for it.Next() {
			var kb, vb strings.Builder
			(&dumper{sb: &kb, seen: d.seen}).walk(it.Key(), depth+1)
			(&dumper{sb: &vb, seen: d.seen}).walk(it.Value(), depth+1)
			items = append(items, kv{kb.String(), vb.String()})
		}
		sort.Slice(items, func(i, j int) bool { return items[i].k < items[j].k })
		fmt.Fprintf(d.sb, "map[%d:", len(items))
		for _, it := range items {
			d.sb.WriteString(it.k + "=>" + it.v + ";")
		}
		d.sb.WriteString("]")
	default:
		fmt.Fprintf(d.sb, "<%s>", v.Kind())
	}
}
