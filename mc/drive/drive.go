// Package drive closes the system around the real library: it builds
// configurations, owns the variable fetcher and the registered operators
// (logging every call the engine makes, in order, with argument snapshots),
// collects events and fences panics.
package drive

import (
	"fmt"
	"runtime/debug"
	"sort"
	"strings"

	eval "github.com/onheap/eval"

	"verifmc/ref"
	"verifmc/term"
)

// Opt is one compile configuration of the explorers.
type Opt struct {
	CF, RN, FE, RO bool // ConstantFolding, ReduceNesting, FastEvaluation, Reordering
	Events         int  // 0 off, 1 ReportEvent, 2 Debug, 3 both
	Undef          int  // 0 all variables registered, 1 all undefined-mode, 2 odd-numbered undefined-mode, 3 all registered but undefined variables allowed, 4 all registered and the first same-typed pair of variables shares ONE key (two names for one slot)
	Directive      int  // 0 programmatic options; 1.. in-source directive renderings
	Infix          bool
	Costs          map[string]float64
	CostsName      string
	// Stateless: the pure harness operators (p q g h d cat) are declared in
	// Config.StatelessOperators
	Stateless bool
}

func (o Opt) OptBits() int {
	b := 0
	if o.CF {
		b |= 1
	}
	if o.RN {
		b |= 2
	}
	if o.FE {
		b |= 4
	}
	if o.RO {
		b |= 8
	}
	return b
}

func FromBits(b int) Opt {
	return Opt{CF: b&1 != 0, RN: b&2 != 0, FE: b&4 != 0, RO: b&8 != 0}
}

func (o Opt) String() string {
	var p []string
	for _, x := range []struct {
		on bool
		n  string
	}{{o.CF, "CF"}, {o.RN, "RN"}, {o.FE, "FE"}, {o.RO, "RO"}} {
		if x.on {
			p = append(p, x.n)
		}
	}
	s := "opt{" + strings.Join(p, ",") + "}"
	if o.Events == 1 {
		s += "+report"
	} else if o.Events == 2 {
		s += "+debug"
	} else if o.Events == 3 {
		s += "+report+debug"
	}
	if o.Undef != 0 {
		s += fmt.Sprintf("+undef%d", o.Undef)
	}
	if o.Directive != 0 {
		s += fmt.Sprintf("+directive%d", o.Directive)
	}
	if o.Infix {
		s += "+infix"
	}
	if o.CostsName != "" {
		s += "+costs:" + o.CostsName
	}
	if o.Stateless {
		s += "+stateless-declared"
	}
	return s
}

// AllOptSets returns the 16 optimisation subsets (programmatic, events off).
func AllOptSets() []Opt {
	r := make([]Opt, 16)
	for b := 0; b < 16; b++ {
		r[b] = FromBits(b)
	}
	return r
}

var optNames = []struct {
	get func(Opt) bool
	opt eval.CompileOption
}{
	{func(o Opt) bool { return o.CF }, eval.ConstantFolding},
	{func(o Opt) bool { return o.RN }, eval.ReduceNesting},
	{func(o Opt) bool { return o.FE }, eval.FastEvaluation},
	{func(o Opt) bool { return o.RO }, eval.Reordering},
}

// NumDirectiveStyles is the number of distinct in-source renderings.
const NumDirectiveStyles = 5

// DirectiveText renders the optimisation subset as leading ";;;;" comments.
// style 1: one line, four explicit entries; 2: "optimize:<majority>" followed
// by overrides on the same line; 3: one line per option (later lines win over
// an initial optimize line with the opposite value); 4: extra blanks and
// exotic ParseBool spellings; 5: preceded by an ordinary comment and a blank
// line, overrides restated twice (last wins).
func DirectiveText(o Opt, style int) string {
	b := func(v bool, t, f string) string {
		if v {
			return t
		}
		return f
	}
	var sb strings.Builder
	switch style {
	case 1:
		var p []string
		for _, x := range optNames {
			p = append(p, fmt.Sprintf("%s:%s", x.opt, b(x.get(o), "true", "false")))
		}
		sb.WriteString(";;;; " + strings.Join(p, ", ") + "\n")
	case 2:
		n := 0
		for _, x := range optNames {
			if x.get(o) {
				n++
			}
		}
		maj := n >= 2
		p := []string{fmt.Sprintf("optimize:%s", b(maj, "true", "false"))}
		for _, x := range optNames {
			if x.get(o) != maj {
				p = append(p, fmt.Sprintf("%s:%s", x.opt, b(x.get(o), "true", "false")))
			}
		}
		sb.WriteString(";;;;" + strings.Join(p, ",") + "\n")
	case 3:
		sb.WriteString(";;;; optimize: " + b(o.CF, "false", "true") + "\n")
		for i := len(optNames) - 1; i >= 0; i-- {
			x := optNames[i]
			sb.WriteString(fmt.Sprintf(";;;; %s: %s\n", x.opt, b(x.get(o), "true", "false")))
		}
	case 4:
		t := []string{"1", "t", "T", "TRUE", "True"}
		f := []string{"0", "f", "F", "FALSE", "False"}
		var p []string
		for i, x := range optNames {
			p = append(p, fmt.Sprintf("  %s  :  %s  ", x.opt, b(x.get(o), t[(i+o.OptBits())%5], f[(i+o.OptBits())%5])))
		}
		sb.WriteString("  \t;;;;" + strings.Join(p, ",") + "\n")
	case 5:
		sb.WriteString("; an ordinary comment (optimize:false)\n\n")
		for _, x := range optNames {
			sb.WriteString(fmt.Sprintf(";;;; %s:%s\n", x.opt, b(x.get(o), "false", "true")))
		}
		sb.WriteString(";; another one\n")
		var p []string
		for _, x := range optNames {
			p = append(p, fmt.Sprintf("%s:%s", x.opt, b(x.get(o), "true", "false")))
		}
		sb.WriteString(";;;;" + strings.Join(p, ",") + "\n")
	default:
		panic("bad directive style")
	}
	return sb.String()
}

// Harness owns the environment of one worker.
type Harness struct {
	Trace    []ref.Ev // ground truth: what the engine called, in order
	Protocol []string // fetcher-protocol breaches (wrong key, Get on an unavailable variable, ...)
	OpMap    map[string]eval.Operator
	Consts   map[string]interface{}
	Events   []eval.Event
	// CompileCalls counts invocations of registered operators while
	// InCompile is set (used by C10).
	InCompile    bool
	CompileCalls map[string]int
	// OpHook, if set, is called inside every registered operator after the
	// argument snapshot (scheduling point for the schedule explorer).
	OpHook func(name string, live []eval.Value)
	// OpHookCtx: the same, with the context the engine handed to the operator
	OpHookCtx func(name string, ctx *eval.Ctx, live []eval.Value)
	// CtxNil records whether a registered operator saw a nil *Ctx.
	SawNilCtx map[string]int
	// ScribbleArgs makes every registered operator overwrite its own
	// argument slice before returning (an operator may normalise or sort its
	// parameters in place; what it was CALLED with must still be reported).
	ScribbleArgs bool
}

// Consts registered in every harness config (ConstantMap).
var DefaultConsts = map[string]interface{}{"KT": true, "KF": false, "K0": int64(0), "K1": int64(1), "KS": "s"}

func NewHarness() *Harness {
	h := &Harness{OpMap: map[string]eval.Operator{}, Consts: DefaultConsts,
		CompileCalls: map[string]int{}, SawNilCtx: map[string]int{}}
	for name, fn := range ref.Customs {
		h.Register(name, fn)
	}
	return h
}

// Register adds a tracing wrapper of fn under name.
func (h *Harness) Register(name string, fn ref.CustomFn) {
	h.OpMap[name] = func(ctx *eval.Ctx, params []eval.Value) (eval.Value, error) {
		args := make([]interface{}, len(params))
		for i, p := range params {
			args[i] = p
		}
		if h.InCompile {
			h.CompileCalls[name]++
		}
		if ctx == nil {
			h.SawNilCtx[name]++
		}
		if h.OpHook != nil {
			h.OpHook(name, params)
		}
		if h.OpHookCtx != nil {
			h.OpHookCtx(name, ctx, params)
		}
		res, err := fn(args)
		h.Trace = append(h.Trace, ref.Ev{Name: name, Args: args, Res: res, Err: err})
		if h.ScribbleArgs {
			for i := range params {
				params[i] = "SCRIBBLED-BY-OPERATOR"
			}
		}
		return res, err
	}
}

func (h *Harness) Reset() {
	h.Trace = h.Trace[:0]
	h.Protocol = h.Protocol[:0]
	h.Events = h.Events[:0]
}

// KeyOf is the key the harness registers for the i-th variable.
func KeyOf(i int) eval.VariableKey { return eval.VariableKey(i + 1) }

// NewConfig builds a fresh configuration for a program with the given
// variables under o.
func (h *Harness) NewConfig(vars []term.VarDecl, o Opt) *eval.Config {
	cfg := eval.NewConfig()
	for k, v := range h.Consts {
		cfg.ConstantMap[k] = v
	}
	for k, v := range h.OpMap {
		cfg.OperatorMap[k] = v
	}
	for i, v := range vars {
		switch o.Undef {
		case 0, 3, 4:
			cfg.VariableKeyMap[v.Name] = KeyOf(i)
		case 1:
		case 2:
			if i%2 == 0 {
				cfg.VariableKeyMap[v.Name] = KeyOf(i)
			}
		}
	}
	if o.Undef == 4 {
		if i, j := AliasPair(vars); j > 0 {
			cfg.VariableKeyMap[vars[j].Name] = KeyOf(i)
		}
	}
	if o.Undef != 0 && o.Undef != 4 {
		cfg.CompileOptions[eval.AllowUndefinedVariable] = true
	}
	if o.Stateless {
		for _, n := range []string{"p", "q", "g", "h", "d", "cat"} {
			if _, ok := cfg.OperatorMap[n]; ok {
				cfg.StatelessOperators = append(cfg.StatelessOperators, n)
			}
		}
	}
	if o.Directive == 0 {
		for _, x := range optNames {
			cfg.CompileOptions[x.opt] = x.get(o)
		}
	} else if o.Directive%2 == 0 {
		// the directive must override whatever the config says
		for _, x := range optNames {
			cfg.CompileOptions[x.opt] = !x.get(o)
		}
	}
	switch o.Events {
	case 1:
		cfg.CompileOptions[eval.ReportEvent] = true
	case 2:
		cfg.CompileOptions[eval.Debug] = true
	case 3:
		cfg.CompileOptions[eval.ReportEvent] = true
		cfg.CompileOptions[eval.Debug] = true
	}
	if o.Infix {
		cfg.CompileOptions[eval.InfixNotation] = true
	}
	for k, v := range o.Costs {
		cfg.CostsMap[k] = v
	}
	return cfg
}

// Source is the text handed to Compile for src under o.
func Source(src string, o Opt) string {
	if o.Directive != 0 {
		return DirectiveText(o, o.Directive) + src
	}
	return src
}

type PanicErr struct {
	V    interface{}
	Site string // first frame inside the library
}

func (p *PanicErr) Error() string { return fmt.Sprintf("PANIC at %s: %v", p.Site, p.V) }

// panicSite extracts the innermost library frame from the current stack
// (call from a deferred function while panicking).
func panicSite() string {
	st := string(debug.Stack())
	lines := strings.Split(st, "\n")
	seenPanic := false
	for _, l := range lines {
		if strings.HasPrefix(l, "panic(") {
			seenPanic = true
			continue
		}
		l = strings.TrimSpace(l)
		if seenPanic && strings.Contains(l, ".go:") && !strings.Contains(l, "/runtime/") && !strings.Contains(l, "verifmc") && !strings.Contains(l, "/verif/mc/") {
			if i := strings.LastIndex(l, "/"); i >= 0 {
				l = l[i+1:]
			}
			if i := strings.Index(l, " "); i >= 0 {
				l = l[:i]
			}
			return l
		}
	}
	return "?"
}

// Compile runs the real Compile under a panic fence.
func (h *Harness) Compile(cfg *eval.Config, src string, eventCap int) (e *eval.Expr, err error) {
	defer func() {
		h.InCompile = false
		if r := recover(); r != nil {
			e, err = nil, &PanicErr{V: r, Site: panicSite()}
		}
	}()
	h.InCompile = true
	e, err = eval.Compile(cfg, src)
	h.InCompile = false
	if err == nil && e == nil {
		return nil, &PanicErr{V: "Compile returned (nil, nil)"}
	}
	if e != nil && (cfg.CompileOptions[eval.ReportEvent] || cfg.CompileOptions[eval.Debug]) {
		e.EventChan = make(chan eval.Event, eventCap)
	}
	return e, err
}

// Fetcher is the harness VariableFetcher of one program.
type Fetcher struct {
	H     *Harness
	Idx   map[string]int
	Keys  []eval.VariableKey // expected key per variable (UndefinedVarKey for undefined-mode ones)
	Vals  []interface{}      // value or error
	Avail []bool             // nil: everything is available
	// Hook, if set, is called at the start of every Get / Cached
	// (scheduling point).
	Hook func(kind, name string)
	// FromOp is set while a user operator of the harness reads a variable
	// through the context it was handed: an unavailable variable then answers
	// with an error (as the library's map fetcher does) instead of counting as
	// a protocol breach of the engine.
	FromOp bool
	// Nth counts the fetches per variable whose value is a ref.Seq (reset it
	// before every evaluation).
	Nth map[int]int
}

// AliasPair returns the first pair i < j of same-typed variables (j == 0: none).
func AliasPair(vars []term.VarDecl) (int, int) {
	for i := range vars {
		for j := i + 1; j < len(vars); j++ {
			if vars[i].Ty == vars[j].Ty {
				return i, j
			}
		}
	}
	return 0, 0
}

func NewFetcher(h *Harness, vars []term.VarDecl, o Opt) *Fetcher {
	f := &Fetcher{H: h, Idx: map[string]int{}, Keys: make([]eval.VariableKey, len(vars)), Vals: make([]interface{}, len(vars))}
	for i, v := range vars {
		f.Idx[v.Name] = i
		f.Keys[i] = KeyOf(i)
		if o.Undef == 1 || (o.Undef == 2 && i%2 == 1) {
			f.Keys[i] = eval.UndefinedVarKey
		}
	}
	if o.Undef == 4 {
		if i, j := AliasPair(vars); j > 0 {
			f.Keys[j] = KeyOf(i)
		}
	}
	return f
}

func (f *Fetcher) lookup(op string, k eval.VariableKey, s string) int {
	i, ok := f.Idx[s]
	if !ok {
		f.H.Protocol = append(f.H.Protocol, fmt.Sprintf("%s(%d,%q): no such variable in the program", op, k, s))
		return -1
	}
	if f.Keys[i] != k {
		f.H.Protocol = append(f.H.Protocol, fmt.Sprintf("%s(%d,%q): key does not belong to this name (want %d)", op, k, s, f.Keys[i]))
	}
	return i
}

func (f *Fetcher) Get(k eval.VariableKey, s string) (eval.Value, error) {
	if f.Hook != nil {
		f.Hook("get", s)
	}
	i := f.lookup("Get", k, s)
	if i < 0 {
		return nil, fmt.Errorf("no such variable %s", s)
	}
	if f.Avail != nil && !f.Avail[i] {
		if f.FromOp {
			return nil, fmt.Errorf("variable %s is not available", s)
		}
		f.H.Protocol = append(f.H.Protocol, fmt.Sprintf("Get(%q) on a variable reported as not cached", s))
	}
	v := f.Vals[i]
	if sq, isSeq := v.(ref.Seq); isSeq {
		if f.Nth == nil {
			f.Nth = map[int]int{}
		}
		v = sq.At(f.Nth[i])
		f.Nth[i]++
	}
	if e, isErr := v.(error); isErr {
		f.H.Trace = append(f.H.Trace, ref.Ev{Get: true, Name: s, Err: e})
		return nil, e
	}
	f.H.Trace = append(f.H.Trace, ref.Ev{Get: true, Name: s, Res: v})
	return v, nil
}

func (f *Fetcher) Set(k eval.VariableKey, s string, v eval.Value) error {
	f.H.Protocol = append(f.H.Protocol, fmt.Sprintf("Set(%q) called by the engine", s))
	return nil
}

func (f *Fetcher) Cached(k eval.VariableKey, s string) bool {
	if f.Hook != nil {
		f.Hook("cached", s)
	}
	i := f.lookup("Cached", k, s)
	if i < 0 {
		return false
	}
	return f.Avail == nil || f.Avail[i]
}

// Out is the outcome of one call into the engine.
type Out struct {
	Val   interface{}
	Err   error
	Panic interface{}
	Site  string
}

func (o Out) String() string {
	if o.Panic != nil {
		return fmt.Sprintf("PANIC(%v at %s)", o.Panic, o.Site)
	}
	if o.Err != nil {
		return fmt.Sprintf("error(%v)", o.Err)
	}
	return fmt.Sprintf("%T(%v)", o.Val, o.Val)
}

func (h *Harness) drain(e *eval.Expr) {
	if e.EventChan == nil {
		return
	}
	for {
		select {
		case ev := <-e.EventChan:
			h.Events = append(h.Events, ev)
		default:
			return
		}
	}
}

// Eval runs the real Expr.Eval under a panic fence and collects events.
func (h *Harness) Eval(e *eval.Expr, f eval.VariableFetcher) (out Out) {
	defer func() {
		if r := recover(); r != nil {
			out = Out{Panic: r, Site: panicSite()}
		}
		h.drain(e)
	}()
	v, err := e.Eval(&eval.Ctx{VariableFetcher: f})
	return Out{Val: v, Err: err}
}

func (h *Harness) TryEval(e *eval.Expr, f eval.VariableFetcher) (out Out) {
	defer func() {
		if r := recover(); r != nil {
			out = Out{Panic: r, Site: panicSite()}
		}
		h.drain(e)
	}()
	v, err := e.TryEval(&eval.Ctx{VariableFetcher: f})
	return Out{Val: v, Err: err}
}

// TryEvalCtx is TryEval on a caller-supplied (reused) context.
func (h *Harness) TryEvalCtx(e *eval.Expr, ctx *eval.Ctx) (out Out) {
	defer func() {
		if r := recover(); r != nil {
			out = Out{Panic: r, Site: panicSite()}
		}
		h.drain(e)
	}()
	v, err := e.TryEval(ctx)
	return Out{Val: v, Err: err}
}

// SameOutcome: equal values, or both errors (sentinels by identity, others
// by presence only).
func SameOutcome(a, b Out) bool {
	if a.Panic != nil || b.Panic != nil {
		return false
	}
	if (a.Err != nil) != (b.Err != nil) {
		return false
	}
	if a.Err != nil {
		as, bs := IsSentinel(a.Err), IsSentinel(b.Err)
		if as || bs {
			return a.Err == b.Err
		}
		return true
	}
	return ref.ValEqual(a.Val, b.Val)
}

func IsSentinel(e error) bool { return e == ref.ErrFetch || e == ref.ErrOp }

// Domain returns the binding domain of a type: values, plus the fetch
// failure answer when withErr.
func Domain(ty term.Ty, withErr bool) []interface{} {
	var d []interface{}
	switch ty {
	case term.TB:
		d = []interface{}{true, false}
	case term.TI:
		d = []interface{}{int64(0), int64(1)}
	case term.TS:
		d = []interface{}{"s", "t"}
	case term.TIL:
		d = []interface{}{[]int64{}, []int64{1, 2}}
	case term.TSL:
		d = []interface{}{[]string{}, []string{"s"}}
	}
	if withErr {
		d = append(d, ref.ErrFetch)
	}
	return d
}

// ForBindings enumerates the full product of the per-variable domains,
// writing each assignment into vals and calling fn. fn returns false to stop.
func ForBindings(doms [][]interface{}, vals []interface{}, fn func() bool) {
	n := len(doms)
	idx := make([]int, n)
	for i := range idx {
		if len(doms[i]) == 0 {
			return
		}
		vals[i] = doms[i][0]
	}
	for {
		if !fn() {
			return
		}
		i := n - 1
		for ; i >= 0; i-- {
			idx[i]++
			if idx[i] < len(doms[i]) {
				vals[i] = doms[i][idx[i]]
				break
			}
			idx[i] = 0
			vals[i] = doms[i][0]
		}
		if i < 0 {
			return
		}
	}
}

// BindingMap renders an assignment for reports.
func BindingMap(vars []term.VarDecl, vals []interface{}, avail []bool) map[string]string {
	m := map[string]string{}
	for i, v := range vars {
		s := fmt.Sprintf("%v", vals[i])
		if avail != nil && !avail[i] {
			s = "UNAVAILABLE(" + s + ")"
		}
		m[v.Name] = s
	}
	return m
}

func SortedKeys(m map[string]float64) []string {
	var k []string
	for s := range m {
		k = append(k, s)
	}
	sort.Strings(k)
	return k
}

// Fence runs fn under a panic fence and reports the panic (value, site).
func Fence(fn func()) (p interface{}, site string) {
	defer func() {
		if r := recover(); r != nil {
			p, site = r, panicSite()
		}
	}()
	fn()
	return nil, ""
}
