// Package sched is a cooperative scheduler plus a depth-first explorer of
// thread interleavings with iterative preemption bounding (CHESS style).
//
// Threads are goroutines parked on private channels; exactly one runs at a
// time. A thread yields at a Point (the harness calls Point from every
// callback the library makes into its environment and around every library
// call). The explorer replays a prefix of choices and then always takes
// choice 0 (keep running the current thread if it is still enabled, else the
// lowest enabled id); alternatives are expanded depth-first.
package sched

import (
	"fmt"
)

// PointRec records one scheduling decision.
type PointRec struct {
	N              int    // number of enabled threads
	C              int    // index chosen (canonical order)
	RunningEnabled bool   // the deciding thread was itself still enabled (switching away is a preemption)
	Label          string // what the deciding thread was about to do
	Thread         int    // id of the deciding thread
	Chosen         int    // id of the thread that runs next
}

type thread struct {
	id       int
	wake     chan struct{}
	finished bool
	enabled  func() bool
	body     func()
	panicked interface{}
}

// Sched runs one execution.
type Sched struct {
	threads  []*thread
	cur      int
	prefix   []int
	pos      int
	Points   []PointRec
	done     chan struct{}
	Deadlock bool
	Diverged string
	MaxSteps int
	Overrun  bool
	// OnPoint, if set, is called at every scheduling point before the
	// decision (state invariants are evaluated here).
	OnPoint func(thread int, label string)
}

// Body describes one thread: its code and (optionally) when it is enabled.
type Body struct {
	Run     func()
	Enabled func() bool
}

// Cur is the id of the running thread.
func (s *Sched) Cur() int { return s.cur }

// Panics returns the recovered panic of each thread (nil if none).
func (s *Sched) Panics() []interface{} {
	out := make([]interface{}, len(s.threads))
	for i, t := range s.threads {
		out[i] = t.panicked
	}
	return out
}

func (s *Sched) isEnabled(t *thread) bool {
	return !t.finished && (t.enabled == nil || t.enabled())
}

func (s *Sched) decide(me int, label string) int {
	var list []int
	meEnabled := me >= 0 && s.isEnabled(s.threads[me])
	if meEnabled {
		list = append(list, me)
	}
	for _, t := range s.threads {
		if t.id != me && s.isEnabled(t) {
			list = append(list, t.id)
		}
	}
	if len(list) == 0 {
		return -1
	}
	c := 0
	if s.pos < len(s.prefix) {
		c = s.prefix[s.pos]
		if c >= len(list) {
			s.Diverged = fmt.Sprintf("replay divergence at point %d (%s): choice %d of %d enabled", s.pos, label, c, len(list))
			c = 0
		}
	}
	s.pos++
	s.Points = append(s.Points, PointRec{N: len(list), C: c, RunningEnabled: meEnabled, Label: label, Thread: me, Chosen: list[c]})
	if s.MaxSteps > 0 && len(s.Points) > s.MaxSteps {
		s.Overrun = true
	}
	return list[c]
}

// Point is a scheduling point of the running thread.
func (s *Sched) Point(label string) {
	me := s.cur
	if s.OnPoint != nil {
		s.OnPoint(me, label)
	}
	next := s.decide(me, label)
	if next == me {
		return
	}
	if next == -1 {
		// the running thread is blocked and nobody else can run
		s.Deadlock = true
		panic(deadlockPanic{})
	}
	s.cur = next
	s.threads[next].wake <- struct{}{}
	<-s.threads[me].wake
}

type deadlockPanic struct{}

func (s *Sched) exit(t *thread) {
	t.finished = true
	next := s.decide(t.id, "exit")
	if next == -1 {
		for _, o := range s.threads {
			if !o.finished {
				s.Deadlock = true
			}
		}
		close(s.done)
		return
	}
	s.cur = next
	s.threads[next].wake <- struct{}{}
}

// Run executes the bodies under the given choice prefix and returns when all
// threads have finished (or a deadlock was found).
func Run(bodies []Body, prefix []int, onPoint func(thread int, label string)) *Sched {
	return RunWith(bodies, prefix, onPoint, nil)
}

// RunWith is Run with a callback that receives the scheduler before any
// thread starts (thread bodies need it to call Point).
func RunWith(bodies []Body, prefix []int, onPoint func(thread int, label string), publish func(*Sched)) *Sched {
	s := &Sched{prefix: prefix, done: make(chan struct{}), cur: -1, MaxSteps: 100000, OnPoint: onPoint}
	if publish != nil {
		publish(s)
	}
	for i, b := range bodies {
		t := &thread{id: i, wake: make(chan struct{}), enabled: b.Enabled, body: b.Run}
		s.threads = append(s.threads, t)
	}
	for _, t := range s.threads {
		t := t
		go func() {
			<-t.wake
			func() {
				defer func() {
					if r := recover(); r != nil {
						if _, dl := r.(deadlockPanic); !dl {
							t.panicked = r
						}
					}
				}()
				t.body()
			}()
			if s.Deadlock {
				// release everybody: the execution is over
				t.finished = true
				for _, o := range s.threads {
					if !o.finished {
						o.finished = true
						o.enabled = nil
					}
				}
				close(s.done)
				return
			}
			s.exit(t)
		}()
	}
	first := s.decide(-1, "start")
	if first == -1 {
		close(s.done)
	} else {
		s.cur = first
		s.threads[first].wake <- struct{}{}
	}
	<-s.done
	return s
}

// Choices returns the choice sequence of the execution.
func (s *Sched) Choices() []int {
	c := make([]int, len(s.Points))
	for i, p := range s.Points {
		c[i] = p.C
	}
	return c
}

// Stats of an exploration.
type Stats struct {
	Schedules   int
	Points      int
	MaxPoints   int
	Bound       int  // preemption bound used (-1: unbounded)
	Exhaustive  bool // every schedule within the bound was executed
	StoppedByFn bool
}

// Explore enumerates every schedule with at most bound preemptions
// (bound < 0: all schedules). run must execute the system under the given
// prefix from a fresh state; visit is called with every completed execution
// and returns false to stop. limit caps the number of executions (0: none).
func Explore(bound int, limit int, run func(prefix []int) *Sched, visit func(*Sched) bool) Stats {
	st := Stats{Bound: bound, Exhaustive: true}
	type frame struct{ prefix []int }
	stack := []frame{{nil}}
	for len(stack) > 0 {
		f := stack[len(stack)-1]
		stack = stack[:len(stack)-1]
		if limit > 0 && st.Schedules >= limit {
			st.Exhaustive = false
			return st
		}
		x := run(f.prefix)
		st.Schedules++
		st.Points += len(x.Points)
		if len(x.Points) > st.MaxPoints {
			st.MaxPoints = len(x.Points)
		}
		if !visit(x) {
			st.StoppedByFn = true
			st.Exhaustive = false
			return st
		}
		// preemptions used before each point
		pre := 0
		costs := make([]int, len(x.Points))
		for i, p := range x.Points {
			costs[i] = pre
			if p.RunningEnabled && p.C != 0 {
				pre++
			}
		}
		// expand alternatives after the prefix, deepest first so that the
		// DFS order is the natural one
		for i := len(x.Points) - 1; i >= len(f.prefix); i-- {
			p := x.Points[i]
			cost := costs[i]
			if p.RunningEnabled {
				cost++
			}
			if bound >= 0 && cost > bound {
				continue
			}
			for alt := p.N - 1; alt >= 1; alt-- {
				np := make([]int, i+1)
				for k := 0; k < i; k++ {
					np[k] = x.Points[k].C
				}
				np[i] = alt
				stack = append(stack, frame{np})
			}
		}
	}
	return st
}
