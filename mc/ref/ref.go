// Package ref holds the boring reference models the explorers compare the
// real engine against: R1 (lazy left-to-right short-circuit evaluation with
// an observable trace), R2 (strong Kleene three-valued evaluation) and R3
// (total evaluation: every and/or operand is evaluated). They are recursive
// tree walkers: no flat program, no jumps, no stack.
package ref

import (
	"errors"
	"fmt"
	"reflect"

	"verifmc/term"
)

// Sentinel failure answers, compared by identity on the way out of the engine.
var (
	ErrFetch = errors.New("sentinel-fetch-error")
	ErrOp    = errors.New("sentinel-operator-error")
	// ErrBuiltin stands for "some error raised by a builtin / the engine
	// itself"; only its presence is compared, never its text.
	ErrBuiltin = errors.New("reference: builtin error")
	// ErrUndefined marks situations the documented semantics does not define
	// (e.g. eq on list operands); callers skip the comparison.
	ErrUndefined = errors.New("reference: undefined by the documented semantics")
)

// Ev is one observable effect of an evaluation.
type Ev struct {
	Get  bool // true: variable fetch, false: custom operator call
	Name string
	Args []interface{}
	Res  interface{}
	Err  error
}

func (e Ev) String() string {
	if e.Get {
		return fmt.Sprintf("get(%s)=%v/%v", e.Name, e.Res, e.Err)
	}
	return fmt.Sprintf("%s%v=%v/%v", e.Name, e.Args, e.Res, e.Err)
}

func EvEqual(a, b Ev) bool {
	if a.Get != b.Get || a.Name != b.Name || a.Err != b.Err {
		return false
	}
	if !ValEqual(a.Res, b.Res) || len(a.Args) != len(b.Args) {
		return false
	}
	for i := range a.Args {
		if !ValEqual(a.Args[i], b.Args[i]) {
			return false
		}
	}
	return true
}

func TraceEqual(a, b []Ev) bool {
	if len(a) != len(b) {
		return false
	}
	for i := range a {
		if !EvEqual(a[i], b[i]) {
			return false
		}
	}
	return true
}

// ValEqual compares two engine values (scalars by ==, lists element-wise).
func ValEqual(a, b interface{}) bool {
	switch x := a.(type) {
	case bool:
		y, ok := b.(bool)
		return ok && x == y
	case int64:
		y, ok := b.(int64)
		return ok && x == y
	case string:
		y, ok := b.(string)
		return ok && x == y
	case nil:
		return b == nil
	}
	return reflect.DeepEqual(a, b)
}

// CustomFn is a registered (non-builtin) operator of the harness.
type CustomFn func(args []interface{}) (interface{}, error)

// Env is the environment of one reference evaluation.
type Env struct {
	Vals   map[string]interface{} // name -> value, or an error (failure answer)
	Custom map[string]CustomFn
	Trace  []Ev
	// Paired, when non-nil and true for an operator node with two leaf
	// operands, makes the model fetch both leaves before applying the
	// operator (the one permitted deviation under FastEvaluation).
	Paired func(t *term.Term) bool
	// LogApps makes the model record every operator application (builtin
	// and registered) in order in Apps.
	LogApps bool
	Apps    []Ev
	nth     map[string]int // fetches so far per Seq variable
}

// Seq is a variable whose value changes with every fetch (a live reading):
// the n-th Get answers Seq[n], the last element from then on.
type Seq []interface{}

func (s Seq) At(n int) interface{} {
	if n >= len(s) {
		n = len(s) - 1
	}
	return s[n]
}

func (env *Env) fetch(t *term.Term) (interface{}, error) {
	v, ok := env.Vals[t.Name]
	if !ok {
		panic("reference: unbound variable " + t.Name)
	}
	if sq, isSeq := v.(Seq); isSeq {
		if env.nth == nil {
			env.nth = map[string]int{}
		}
		v = sq.At(env.nth[t.Name])
		env.nth[t.Name]++
	}
	if e, isErr := v.(error); isErr {
		env.Trace = append(env.Trace, Ev{Get: true, Name: t.Name, Err: e})
		return nil, e
	}
	env.Trace = append(env.Trace, Ev{Get: true, Name: t.Name, Res: v})
	return v, nil
}

func (env *Env) apply(t *term.Term, args []interface{}) (interface{}, error) {
	if f, ok := env.Custom[t.Name]; ok {
		cp := append([]interface{}(nil), args...)
		r, err := f(cp)
		env.Trace = append(env.Trace, Ev{Name: t.Name, Args: cp, Res: r, Err: err})
		if env.LogApps {
			env.Apps = append(env.Apps, Ev{Name: t.Name, Args: cp, Res: r, Err: err})
		}
		return r, err
	}
	r, err := Builtin(t.Name, args)
	if env.LogApps {
		env.Apps = append(env.Apps, Ev{Name: t.Name, Args: append([]interface{}(nil), args...), Res: r, Err: err})
	}
	return r, err
}

func isLeaf(t *term.Term) bool { return t.K == term.KConst || t.K == term.KVar }

// Eval is R1: the documented semantics.
func (env *Env) Eval(t *term.Term) (interface{}, error) {
	switch t.K {
	case term.KConst:
		return t.Val, nil
	case term.KVar:
		return env.fetch(t)
	case term.KIf:
		c, err := env.Eval(t.Kids[0])
		if err != nil {
			return nil, err
		}
		b, ok := c.(bool)
		if !ok {
			return nil, ErrBuiltin
		}
		if b {
			return env.Eval(t.Kids[1])
		}
		return env.Eval(t.Kids[2])
	}
	if env.Paired != nil && len(t.Kids) == 2 && isLeaf(t.Kids[0]) && isLeaf(t.Kids[1]) && env.Paired(t) {
		args := make([]interface{}, 2)
		for i, k := range t.Kids {
			v, err := env.Eval(k)
			if err != nil {
				return nil, err
			}
			args[i] = v
		}
		return env.apply(t, args)
	}
	and, or := term.IsAnd(t.Name), term.IsOr(t.Name)
	args := make([]interface{}, 0, len(t.Kids))
	for _, k := range t.Kids {
		v, err := env.Eval(k)
		if err != nil {
			return nil, err
		}
		if b, ok := v.(bool); ok && ((and && !b) || (or && b)) {
			return b, nil
		}
		args = append(args, v)
	}
	return env.apply(t, args)
}

// EvalTotal is R3: like R1 but every operand of and/or is evaluated (only
// the chosen if-branch is). It succeeds iff "evaluating every reachable
// operand succeeds".
func (env *Env) EvalTotal(t *term.Term) (interface{}, error) {
	switch t.K {
	case term.KConst:
		return t.Val, nil
	case term.KVar:
		return env.fetch(t)
	case term.KIf:
		c, err := env.EvalTotal(t.Kids[0])
		if err != nil {
			return nil, err
		}
		b, ok := c.(bool)
		if !ok {
			return nil, ErrBuiltin
		}
		if b {
			return env.EvalTotal(t.Kids[1])
		}
		return env.EvalTotal(t.Kids[2])
	}
	args := make([]interface{}, 0, len(t.Kids))
	for _, k := range t.Kids {
		v, err := env.EvalTotal(k)
		if err != nil {
			return nil, err
		}
		args = append(args, v)
	}
	return env.apply(t, args)
}

// Unknown is the third truth value of R2.
type unknownT struct{}

func (unknownT) String() string { return "UNKNOWN" }

var Unknown = unknownT{}

// ErrFails is returned by Kleene when an operator application over known
// values fails: such (program, binding) pairs are outside C05's domain.
var ErrFails = errors.New("reference: a sub-expression fails")

// Kleene is R2. Vals maps a name to its value or to Unknown.
func (env *Env) Kleene(t *term.Term) (interface{}, error) {
	switch t.K {
	case term.KConst:
		return t.Val, nil
	case term.KVar:
		v, ok := env.Vals[t.Name]
		if !ok {
			panic("reference: unbound variable " + t.Name)
		}
		if _, isErr := v.(error); isErr {
			return nil, ErrFails
		}
		return v, nil
	case term.KIf:
		// every sub-expression must be failure free for the pair to be in
		// the domain, so all three are evaluated
		c, err := env.Kleene(t.Kids[0])
		if err != nil {
			return nil, err
		}
		a, err := env.Kleene(t.Kids[1])
		if err != nil {
			return nil, err
		}
		b, err := env.Kleene(t.Kids[2])
		if err != nil {
			return nil, err
		}
		if c == Unknown {
			return Unknown, nil
		}
		cb, ok := c.(bool)
		if !ok {
			return nil, ErrFails
		}
		if cb {
			return a, nil
		}
		return b, nil
	}
	args := make([]interface{}, len(t.Kids))
	unk := false
	for i, k := range t.Kids {
		v, err := env.Kleene(k)
		if err != nil {
			return nil, err
		}
		args[i] = v
		if v == Unknown {
			unk = true
		}
	}
	if term.IsAnd(t.Name) {
		for _, a := range args {
			if a == false {
				return false, nil
			}
		}
	}
	if term.IsOr(t.Name) {
		for _, a := range args {
			if a == true {
				return true, nil
			}
		}
	}
	if unk {
		return Unknown, nil
	}
	var r interface{}
	var err error
	if f, ok := env.Custom[t.Name]; ok {
		r, err = f(args)
	} else {
		r, err = Builtin(t.Name, args)
	}
	if err != nil {
		return nil, ErrFails
	}
	return r, nil
}

// ---------- harness custom operators (shared by model and driver) ----------

// Customs are the registered operators the program-space explorers use.
// p: unary boolean identity, q: binary xor, g: integer successor,
// h: ternary majority, boom: always fails with the sentinel ErrOp,
// f1/f2/f3: integer projections used by the infix explorer.
var Customs = map[string]CustomFn{
	"p": func(a []interface{}) (interface{}, error) {
		if len(a) != 1 {
			return nil, ErrBuiltin
		}
		b, ok := a[0].(bool)
		if !ok {
			return nil, ErrBuiltin
		}
		return b, nil
	},
	"q": func(a []interface{}) (interface{}, error) {
		if len(a) != 2 {
			return nil, ErrBuiltin
		}
		x, ok1 := a[0].(bool)
		y, ok2 := a[1].(bool)
		if !ok1 || !ok2 {
			return nil, ErrBuiltin
		}
		return x != y, nil
	},
	"g": func(a []interface{}) (interface{}, error) {
		if len(a) != 1 {
			return nil, ErrBuiltin
		}
		x, ok := a[0].(int64)
		if !ok {
			return nil, ErrBuiltin
		}
		return x + 1, nil
	},
	"h": func(a []interface{}) (interface{}, error) {
		if len(a) != 3 {
			return nil, ErrBuiltin
		}
		n := 0
		for _, v := range a {
			b, ok := v.(bool)
			if !ok {
				return nil, ErrBuiltin
			}
			if b {
				n++
			}
		}
		return n >= 2, nil
	},
	"d": func(a []interface{}) (interface{}, error) { // binary int: 10*a+b
		if len(a) != 2 {
			return nil, ErrBuiltin
		}
		x, ok1 := a[0].(int64)
		y, ok2 := a[1].(int64)
		if !ok1 || !ok2 {
			return nil, ErrBuiltin
		}
		return 10*x + y, nil
	},
	"boom": func(a []interface{}) (interface{}, error) { return nil, ErrOp },
	"ri": func(a []interface{}) (interface{}, error) { // hands back a plain Go int (not one of the engine's own types)
		if len(a) != 1 {
			return nil, ErrBuiltin
		}
		if x, ok := a[0].(int64); ok {
			return int(x) * 2, nil
		}
		return a[0], nil
	},
	"bv": func(a []interface{}) (interface{}, error) { // fails AND hands back a value (a partial result)
		if len(a) != 1 {
			return nil, ErrBuiltin
		}
		if x, ok := a[0].(int64); ok && x == 1 {
			return int64(10), ErrOp
		}
		return a[0], nil
	},
	"cat": func(a []interface{}) (interface{}, error) { // variadic, order sensitive: sum of (i+1)*3^i*a[i]
		var s, w int64 = 0, 1
		for i, x := range a {
			v, ok := x.(int64)
			if !ok {
				return nil, ErrBuiltin
			}
			s += int64(i+1) * w * v
			w *= 3
		}
		return s, nil
	},
	"z0": func(a []interface{}) (interface{}, error) { return false, nil },    // zero-operand, succeeds with false
	"t0": func(a []interface{}) (interface{}, error) { return true, nil },     // zero-operand, succeeds
	"i0": func(a []interface{}) (interface{}, error) { return int64(7), nil }, // zero-operand, succeeds
	"last": func(a []interface{}) (interface{}, error) { // variadic: its last argument
		if len(a) == 0 {
			return nil, ErrBuiltin
		}
		return a[len(a)-1], nil
	},
	// registered operators whose names differ from builtins / keywords only in
	// letter case: ordinary STRICT operators (every operand is evaluated)
	"AND": func(a []interface{}) (interface{}, error) {
		r := true
		for _, x := range a {
			b, ok := x.(bool)
			if !ok {
				return nil, ErrBuiltin
			}
			r = r && b
		}
		return r, nil
	},
	"Or": func(a []interface{}) (interface{}, error) {
		r := false
		for _, x := range a {
			b, ok := x.(bool)
			if !ok {
				return nil, ErrBuiltin
			}
			r = r || b
		}
		return r, nil
	},
	"IF": func(a []interface{}) (interface{}, error) { // strict three-operand choice
		if len(a) != 3 {
			return nil, ErrBuiltin
		}
		b, ok := a[0].(bool)
		if !ok {
			return nil, ErrBuiltin
		}
		if b {
			return a[1], nil
		}
		return a[2], nil
	},
	"vsum": func(a []interface{}) (interface{}, error) { // variadic integer sum
		var s int64
		for _, x := range a {
			v, ok := x.(int64)
			if !ok {
				return nil, ErrBuiltin
			}
			s += v
		}
		return s, nil
	},
}
