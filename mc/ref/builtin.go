package ref

import (
	"strconv"
	"strings"
)

// canonical name of every builtin operator and alias (46 table entries).
var Alias = map[string]string{
	"add": "add", "+": "add", "sub": "sub", "-": "sub", "mul": "mul", "*": "mul",
	"div": "div", "/": "div", "mod": "mod", "%": "mod",
	"and": "and", "&": "and", "&&": "and", "or": "or", "|": "or", "||": "or",
	"xor": "xor", "not": "not", "!": "not",
	"eq": "eq", "=": "eq", "==": "eq", "ne": "ne", "!=": "ne",
	"gt": "gt", ">": "gt", "lt": "lt", "<": "lt", "ge": "ge", ">=": "ge", "le": "le", "<=": "le",
	"between": "between", "in": "in", "overlap": "overlap",
	"date": "date", "to_date": "date", "datetime": "datetime", "to_datetime": "datetime",
	"t_time": "t_time", "t_date": "t_date", "td_time": "td_time", "td_date": "td_date",
	"version": "version", "t_version": "version", "to_version": "version",
}

func IsBuiltin(name string) bool { _, ok := Alias[name]; return ok }

func ints(a []interface{}) ([]int64, bool) {
	r := make([]int64, len(a))
	for i, x := range a {
		v, ok := x.(int64)
		if !ok {
			return nil, false
		}
		r[i] = v
	}
	return r, true
}

func bools(a []interface{}) ([]bool, bool) {
	r := make([]bool, len(a))
	for i, x := range a {
		v, ok := x.(bool)
		if !ok {
			return nil, false
		}
		r[i] = v
	}
	return r, true
}

func scalar(x interface{}) bool {
	switch x.(type) {
	case bool, int64, string:
		return true
	}
	return false
}

// Builtin is the independent oracle for every builtin operator: the
// documented algebra, written without reference to the implementation.
func Builtin(name string, a []interface{}) (interface{}, error) {
	c, ok := Alias[name]
	if !ok {
		panic("reference: unknown builtin " + name)
	}
	switch c {
	case "add", "sub", "mul", "div", "mod":
		v, ok := ints(a)
		if !ok || len(v) < 2 {
			return nil, ErrBuiltin
		}
		acc := v[0]
		for _, x := range v[1:] {
			switch c {
			case "add":
				acc += x
			case "sub":
				acc -= x
			case "mul":
				acc *= x
			case "div":
				if x == 0 {
					return nil, ErrBuiltin
				}
				if x == -1 {
					acc = -acc // two's complement: min / -1 = min
				} else {
					acc /= x
				}
			case "mod":
				if x == 0 {
					return nil, ErrBuiltin
				}
				if x == -1 {
					acc = 0
				} else {
					acc %= x
				}
			}
		}
		return acc, nil
	case "and", "or", "xor":
		v, ok := bools(a)
		if !ok || len(v) < 2 {
			return nil, ErrBuiltin
		}
		acc := v[0]
		for _, x := range v[1:] {
			switch c {
			case "and":
				acc = acc && x
			case "or":
				acc = acc || x
			default:
				acc = acc != x
			}
		}
		return acc, nil
	case "not":
		v, ok := bools(a)
		if !ok || len(v) != 1 {
			return nil, ErrBuiltin
		}
		return !v[0], nil
	case "eq":
		if len(a) < 2 {
			return nil, ErrBuiltin
		}
		for _, x := range a {
			if !scalar(x) {
				return nil, ErrUndefined
			}
		}
		for _, x := range a[1:] {
			if x != a[0] {
				return false, nil
			}
		}
		return true, nil
	case "ne":
		if len(a) != 2 {
			return nil, ErrBuiltin
		}
		if !scalar(a[0]) || !scalar(a[1]) {
			return nil, ErrUndefined
		}
		return a[0] != a[1], nil
	case "gt", "lt", "ge", "le":
		v, ok := ints(a)
		if !ok || len(v) != 2 {
			return nil, ErrBuiltin
		}
		switch c {
		case "gt":
			return v[0] > v[1], nil
		case "lt":
			return v[0] < v[1], nil
		case "ge":
			return v[0] >= v[1], nil
		}
		return v[0] <= v[1], nil
	case "between":
		v, ok := ints(a)
		if !ok || len(v) != 3 {
			return nil, ErrBuiltin
		}
		return v[1] <= v[0] && v[0] <= v[2], nil
	case "in":
		if len(a) != 2 {
			return nil, ErrBuiltin
		}
		return setIn(a[0], a[1])
	case "overlap":
		if len(a) != 2 {
			return nil, ErrBuiltin
		}
		return setOverlap(a[0], a[1])
	case "version":
		return versionEnc(a)
	case "date", "datetime", "t_time", "t_date", "td_time", "td_date":
		return dateEnc(c, a)
	}
	panic("reference: unhandled builtin " + name)
}

func setIn(v, coll interface{}) (interface{}, error) {
	switch x := v.(type) {
	case int64:
		switch l := coll.(type) {
		case []int64:
			m := map[int64]bool{}
			for _, e := range l {
				m[e] = true
			}
			return m[x], nil
		case map[int64]struct{}:
			_, ok := l[x]
			return ok, nil
		case []string:
			if len(l) == 0 {
				return false, nil
			}
		}
	case string:
		switch l := coll.(type) {
		case []string:
			m := map[string]bool{}
			for _, e := range l {
				m[e] = true
			}
			return m[x], nil
		case map[string]struct{}:
			_, ok := l[x]
			return ok, nil
		}
	}
	return nil, ErrBuiltin
}

func setOverlap(a, b interface{}) (interface{}, error) {
	switch x := a.(type) {
	case []int64:
		switch y := b.(type) {
		case []int64:
			m := map[int64]bool{}
			for _, e := range x {
				m[e] = true
			}
			for _, e := range y {
				if m[e] {
					return true, nil
				}
			}
			return false, nil
		case []string:
			if len(y) == 0 {
				return false, nil
			}
		}
	case []string:
		switch y := b.(type) {
		case []string:
			m := map[string]bool{}
			for _, e := range x {
				m[e] = true
			}
			for _, e := range y {
				if m[e] {
					return true, nil
				}
			}
			return false, nil
		case []int64:
			if len(x) == 0 {
				return false, nil
			}
		}
	}
	return nil, ErrBuiltin
}

// versionEnc: components beyond the valid length are outside the documented
// domain (ErrUndefined); within it every component must be 0..9999.
func versionEnc(a []interface{}) (interface{}, error) {
	n := int64(3)
	switch len(a) {
	case 1:
	case 2:
		v, ok := a[1].(int64)
		if !ok || v < 1 || v > 4 {
			return nil, ErrBuiltin
		}
		n = v
	default:
		return nil, ErrBuiltin
	}
	s, ok := a[0].(string)
	if !ok {
		return nil, ErrBuiltin
	}
	parts := strings.Split(s, ".")
	if int64(len(parts)) > n {
		return nil, ErrUndefined
	}
	var res int64
	for i := int64(0); i < n; i++ {
		var c int64
		if i < int64(len(parts)) {
			p := parts[i]
			if p == "" {
				return nil, ErrBuiltin
			}
			for _, r := range p {
				if r < '0' || r > '9' {
					if (r == '-' || r == '+') && len(p) > 1 {
						return nil, ErrUndefined // signed components: not in the stated domain
					}
					return nil, ErrBuiltin
				}
			}
			v, err := strconv.ParseInt(p, 10, 64)
			if err != nil || v >= 10000 {
				return nil, ErrBuiltin
			}
			c = v
		}
		res = res*10000 + c
	}
	return res, nil
}

// daysFromCivil: days since 1970-01-01 of a proleptic Gregorian date
// (Howard Hinnant's algorithm), independent of package time.
func daysFromCivil(y, m, d int64) int64 {
	if m <= 2 {
		y--
	}
	var era int64
	if y >= 0 {
		era = y / 400
	} else {
		era = (y - 399) / 400
	}
	yoe := y - era*400
	mp := (m + 9) % 12
	doy := (153*mp+2)/5 + d - 1
	doe := yoe*365 + yoe/4 - yoe/100 + doy
	return era*146097 + doe - 719468
}

func isLeap(y int64) bool { return y%4 == 0 && (y%100 != 0 || y%400 == 0) }

func daysIn(y, m int64) int64 {
	switch m {
	case 2:
		if isLeap(y) {
			return 29
		}
		return 28
	case 4, 6, 9, 11:
		return 30
	}
	return 31
}

func num(s string, width int) (int64, bool) {
	if len(s) != width {
		return 0, false
	}
	var v int64
	for _, r := range s {
		if r < '0' || r > '9' {
			return 0, false
		}
		v = v*10 + int64(r-'0')
	}
	return v, true
}

// ParseCivil parses text under one of the layouts the oracle understands
// independently of package time. ok=false: the oracle does not model this
// (layout,text) pair.
//
//	"2006-01-02", "2006-01-02 15:04:05", "02/01/2006", "01/02/2006", "2006-02-01", "2006-01-02T15:04:05Z07:00"
func ParseCivil(layout, s string) (unix int64, valid bool, modelled bool) {
	var y, mo, d, h, mi, se, off int64
	var ok [6]bool
	switch layout {
	case "2006-01-02":
		if len(s) != 10 || s[4] != '-' || s[7] != '-' {
			return 0, false, true
		}
		y, ok[0] = num(s[0:4], 4)
		mo, ok[1] = num(s[5:7], 2)
		d, ok[2] = num(s[8:10], 2)
		ok[3], ok[4], ok[5] = true, true, true
	case "2006-01-02 15:04:05":
		if len(s) != 19 || s[4] != '-' || s[7] != '-' || s[10] != ' ' || s[13] != ':' || s[16] != ':' {
			return 0, false, true
		}
		y, ok[0] = num(s[0:4], 4)
		mo, ok[1] = num(s[5:7], 2)
		d, ok[2] = num(s[8:10], 2)
		h, ok[3] = num(s[11:13], 2)
		mi, ok[4] = num(s[14:16], 2)
		se, ok[5] = num(s[17:19], 2)
	case "02/01/2006":
		if len(s) != 10 || s[2] != '/' || s[5] != '/' {
			return 0, false, true
		}
		d, ok[2] = num(s[0:2], 2)
		mo, ok[1] = num(s[3:5], 2)
		y, ok[0] = num(s[6:10], 4)
		ok[3], ok[4], ok[5] = true, true, true
	case "01/02/2006":
		if len(s) != 10 || s[2] != '/' || s[5] != '/' {
			return 0, false, true
		}
		mo, ok[1] = num(s[0:2], 2)
		d, ok[2] = num(s[3:5], 2)
		y, ok[0] = num(s[6:10], 4)
		ok[3], ok[4], ok[5] = true, true, true
	case "2006-02-01":
		if len(s) != 10 || s[4] != '-' || s[7] != '-' {
			return 0, false, true
		}
		y, ok[0] = num(s[0:4], 4)
		d, ok[2] = num(s[5:7], 2)
		mo, ok[1] = num(s[8:10], 2)
		ok[3], ok[4], ok[5] = true, true, true
	case "2006-01-02T15:04:05Z07:00":
		if len(s) != 20 && len(s) != 25 {
			return 0, false, true
		}
		if s[4] != '-' || s[7] != '-' || s[10] != 'T' || s[13] != ':' || s[16] != ':' {
			return 0, false, true
		}
		y, ok[0] = num(s[0:4], 4)
		mo, ok[1] = num(s[5:7], 2)
		d, ok[2] = num(s[8:10], 2)
		h, ok[3] = num(s[11:13], 2)
		mi, ok[4] = num(s[14:16], 2)
		se, ok[5] = num(s[17:19], 2)
		if len(s) == 20 {
			if s[19] != 'Z' {
				return 0, false, true
			}
		} else {
			if (s[19] != '+' && s[19] != '-') || s[22] != ':' {
				return 0, false, true
			}
			oh, k1 := num(s[20:22], 2)
			om, k2 := num(s[23:25], 2)
			if !k1 || !k2 || oh > 23 || om > 59 {
				return 0, false, true
			}
			off = oh*3600 + om*60
			if s[19] == '-' {
				off = -off
			}
		}
	case "2006-1-2", "2006-1-2 15:4:5":
		// non-padded layout elements accept one OR two digits (Go's time.Parse)
		datePart, timePart := s, ""
		if layout == "2006-1-2 15:4:5" {
			i := strings.IndexByte(s, ' ')
			if i < 0 {
				return 0, false, true
			}
			datePart, timePart = s[:i], s[i+1:]
		}
		f := strings.Split(datePart, "-")
		if len(f) != 3 || len(f[0]) != 4 || len(f[1]) < 1 || len(f[1]) > 2 || len(f[2]) < 1 || len(f[2]) > 2 {
			return 0, false, true
		}
		y, ok[0] = num(f[0], 4)
		mo, ok[1] = num(f[1], len(f[1]))
		d, ok[2] = num(f[2], len(f[2]))
		ok[3], ok[4], ok[5] = true, true, true
		if timePart != "" || layout == "2006-1-2 15:4:5" {
			t := strings.Split(timePart, ":")
			if len(t) != 3 || len(t[0]) != 2 {
				return 0, false, true
			}
			for _, x := range t[1:] {
				if len(x) < 1 || len(x) > 2 {
					return 0, false, true
				}
			}
			h, ok[3] = num(t[0], 2)
			mi, ok[4] = num(t[1], len(t[1]))
			se, ok[5] = num(t[2], len(t[2]))
		}
	default:
		return 0, false, false
	}
	for _, k := range ok {
		if !k {
			return 0, false, true
		}
	}
	if mo < 1 || mo > 12 || d < 1 || d > daysIn(y, mo) || h > 23 || mi > 59 || se > 59 {
		return 0, false, true
	}
	return daysFromCivil(y, mo, d)*86400 + h*3600 + mi*60 + se - off, true, true
}

func dateEnc(c string, a []interface{}) (interface{}, error) {
	var layout string
	switch c {
	case "date", "datetime":
		switch len(a) {
		case 1:
			layout = map[string]string{"date": "2006-01-02", "datetime": "2006-01-02 15:04:05"}[c]
		case 2:
			l, ok := a[1].(string)
			if !ok {
				return nil, ErrBuiltin
			}
			layout = l
		default:
			return nil, ErrBuiltin
		}
	case "t_time", "t_date":
		if len(a) != 2 {
			return nil, ErrBuiltin
		}
		l, ok := a[1].(string)
		if !ok {
			return nil, ErrBuiltin
		}
		layout = l
	case "td_time", "td_date":
		if len(a) != 1 {
			return nil, ErrBuiltin
		}
		layout = map[string]string{"td_date": "2006-01-02", "td_time": "2006-01-02 15:04:05"}[c]
	}
	s, ok := a[0].(string)
	if !ok {
		return nil, ErrBuiltin
	}
	u, valid, modelled := ParseCivil(layout, s)
	if !modelled {
		return nil, ErrUndefined
	}
	if !valid {
		return nil, ErrBuiltin
	}
	return u, nil
}
