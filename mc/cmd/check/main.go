// Command check runs one property checker: check <ID> [quick|thorough]
// or replays a recorded violation: check replay <file>.
package main

import (
	"encoding/json"
	"fmt"
	"os"
	"sort"

	"verifmc/props"
	"verifmc/rep"
)

func main() {
	if len(os.Args) < 2 {
		usage()
	}
	if os.Args[1] == "replay" {
		if len(os.Args) < 3 {
			usage()
		}
		b, err := os.ReadFile(os.Args[2])
		if err != nil {
			fmt.Fprintln(os.Stderr, err)
			os.Exit(2)
		}
		var v struct {
			Property string                 `json:"property"`
			Kind     string                 `json:"kind"`
			Message  string                 `json:"message"`
			Case     map[string]interface{} `json:"case"`
		}
		if err := json.Unmarshal(b, &v); err != nil {
			fmt.Fprintln(os.Stderr, err)
			os.Exit(2)
		}
		fn := props.Replayers[v.Property]
		if fn == nil {
			fn = props.GenericReplay
		}
		fmt.Printf("replaying %s [%s]: %s\n", v.Property, v.Kind, v.Message)
		if err := fn(v.Kind, v.Case); err != nil {
			fmt.Printf("VIOLATION property=%s replay=%s\n  %v\n", v.Property, os.Args[2], err)
			os.Exit(1)
		}
		fmt.Println("replay: the recorded case no longer violates the property")
		return
	}
	if os.Args[1] == "c07iso" {
		// one call in a fresh process: the isolated baseline of C07
		props.C07IsoMain(os.Args[2:])
		return
	}
	if os.Args[1] == "c08iso" {
		// one Compile in a fresh process: the isolated baseline of C08
		props.C08IsoMain(os.Args[2:])
		return
	}
	id := os.Args[1]
	tier := os.Getenv("VERIF_TIER")
	if len(os.Args) > 2 {
		tier = os.Args[2]
	}
	if tier != "thorough" {
		tier = "quick"
	}
	fn := props.Registry[id]
	if fn == nil {
		usage()
	}
	r := rep.NewRun(id, tier)
	fn(r)
	r.Finish()
}

func usage() {
	var ids []string
	for k := range props.Registry {
		ids = append(ids, k)
	}
	sort.Strings(ids)
	fmt.Fprintf(os.Stderr, "usage: check <ID> [quick|thorough] | check replay <file>\nproperties: %v\n", ids)
	os.Exit(2)
}
