// Command racepass runs the C07/C08/C12 harness bodies free-running (real
// goroutines, no cooperative scheduler) so that the Go race detector can see
// unsynchronised accesses. Build with -race. usage: racepass <C07|C08|C15> <iterations>
package main

import (
	"fmt"
	"os"
	"strconv"

	"verifmc/props"
)

func main() {
	if len(os.Args) < 3 {
		fmt.Fprintln(os.Stderr, "usage: racepass <C07|C08|C15> <iterations>")
		os.Exit(2)
	}
	n, _ := strconv.Atoi(os.Args[2])
	var msg string
	var err error
	switch os.Args[1] {
	case "C07":
		msg, err = props.C07FreeRun(n)
	case "C08":
		msg, err = props.C08FreeRun(n)
	case "C15":
		msg, err = props.C15FreeRun(n)
	default:
		err = fmt.Errorf("unknown harness %s", os.Args[1])
	}
	if err != nil {
		fmt.Println("FAILED:", err)
		os.Exit(1)
	}
	fmt.Println(msg)
}
