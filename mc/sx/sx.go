// Package sx is an independent reader for the S-expression text that Dump
// prints (and a tokenizer used to compare token sequences). It shares no code
// with the library's lexer.
package sx

import (
	"fmt"
	"strconv"
	"unicode"

	"verifmc/term"
)

type Tok struct {
	Kind byte // '(' ')' '[' ']' ',' 's'tring 'a'tom 'c'omment
	Text string
}

// Tokens splits text into tokens. Strings run from a double quote to the next
// double quote with no escapes (the documented lexer rule); comments run from
// ';' (at a token start) to the end of the line.
func Tokens(s string) ([]Tok, error) {
	var toks []Tok
	rs := []rune(s)
	for i := 0; i < len(rs); {
		r := rs[i]
		switch {
		case unicode.IsSpace(r):
			i++
		case r == '(' || r == ')' || r == '[' || r == ']' || r == ',':
			toks = append(toks, Tok{Kind: byte(r), Text: string(r)})
			i++
		case r == ';':
			j := i
			for j < len(rs) && rs[j] != '\n' {
				j++
			}
			toks = append(toks, Tok{Kind: 'c', Text: string(rs[i:j])})
			i = j
		case r == '"':
			j := i + 1
			for j < len(rs) && rs[j] != '"' {
				j++
			}
			if j >= len(rs) {
				return nil, fmt.Errorf("unclosed string")
			}
			toks = append(toks, Tok{Kind: 's', Text: string(rs[i+1 : j])})
			i = j + 1
		default:
			j := i
			for j < len(rs) && !unicode.IsSpace(rs[j]) && rs[j] != '(' && rs[j] != ')' &&
				rs[j] != '[' && rs[j] != ']' && rs[j] != ',' && rs[j] != ';' {
				j++
			}
			toks = append(toks, Tok{Kind: 'a', Text: string(rs[i:j])})
			i = j
		}
	}
	return toks, nil
}

// Parse reads one Dump text into a Term. isOp tells whether an identifier in
// head position is an operator (everything in head position is); a
// parenthesised group whose first element is an int or string literal (or
// which is empty) is a list literal.
func Parse(s string) (*term.Term, error) {
	toks, err := Tokens(s)
	if err != nil {
		return nil, err
	}
	pos := 0
	var parse func() (*term.Term, error)
	atom := func(t Tok) *term.Term {
		if t.Kind == 's' {
			return term.Const(t.Text)
		}
		if v, err := strconv.ParseInt(t.Text, 10, 64); err == nil {
			return term.Const(v)
		}
		if t.Text == "true" {
			return term.Const(true)
		}
		if t.Text == "false" {
			return term.Const(false)
		}
		return term.Var(t.Text, term.TX)
	}
	parse = func() (*term.Term, error) {
		if pos >= len(toks) {
			return nil, fmt.Errorf("unexpected end")
		}
		t := toks[pos]
		pos++
		switch t.Kind {
		case 'a', 's':
			return atom(t), nil
		case '(':
		default:
			return nil, fmt.Errorf("unexpected token %q", t.Text)
		}
		if pos >= len(toks) {
			return nil, fmt.Errorf("unexpected end")
		}
		head := toks[pos]
		// list literal?
		if head.Kind == ')' {
			pos++
			return term.Const([]string{}), nil
		}
		if head.Kind == 's' || (head.Kind == 'a' && isInt(head.Text)) {
			var is []int64
			var ss []string
			for pos < len(toks) && toks[pos].Kind != ')' {
				e := toks[pos]
				pos++
				if head.Kind == 's' {
					if e.Kind != 's' {
						return nil, fmt.Errorf("mixed list")
					}
					ss = append(ss, e.Text)
				} else {
					v, err := strconv.ParseInt(e.Text, 10, 64)
					if e.Kind != 'a' || err != nil {
						return nil, fmt.Errorf("mixed list")
					}
					is = append(is, v)
				}
			}
			if pos >= len(toks) {
				return nil, fmt.Errorf("unexpected end")
			}
			pos++
			if head.Kind == 's' {
				return term.Const(ss), nil
			}
			return term.Const(is), nil
		}
		if head.Kind != 'a' {
			return nil, fmt.Errorf("bad head %q", head.Text)
		}
		pos++
		n := &term.Term{K: term.KOp, Name: head.Text, Ty: term.TX}
		if head.Text == "if" {
			n.K = term.KIf
		}
		for pos < len(toks) && toks[pos].Kind != ')' {
			k, err := parse()
			if err != nil {
				return nil, err
			}
			n.Kids = append(n.Kids, k)
		}
		if pos >= len(toks) {
			return nil, fmt.Errorf("unexpected end")
		}
		pos++
		if n.K == term.KIf && len(n.Kids) != 3 {
			return nil, fmt.Errorf("if with %d operands", len(n.Kids))
		}
		return n, nil
	}
	t, err := parse()
	if err != nil {
		return nil, err
	}
	if pos != len(toks) {
		return nil, fmt.Errorf("trailing tokens")
	}
	return t, nil
}

func isInt(s string) bool {
	_, err := strconv.ParseInt(s, 10, 64)
	return err == nil
}
