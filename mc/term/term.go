// Package term defines the expression trees the explorers enumerate, their
// renderings to source text, and the size-bounded exhaustive enumerator.
package term

import (
	"fmt"
	"strconv"
	"strings"
)

// Ty is the first-order type of a term.
type Ty int

const (
	TB  Ty = iota // bool
	TI            // int64
	TS            // string
	TIL           // []int64
	TSL           // []string
	TX            // unknown / any (used by readers of Dump text)
)

func (t Ty) String() string {
	return [...]string{"B", "I", "S", "IL", "SL", "X"}[t]
}

type Kind int

const (
	KConst Kind = iota
	KVar
	KOp
	KIf
)

// Term is an expression tree node.
type Term struct {
	K    Kind
	Name string      // variable / operator name
	Val  interface{} // constant value (bool,int64,string,[]int64,[]string)
	Lit  string      // constant source text in prefix notation
	Kids []*Term
	Ty   Ty
}

func Const(v interface{}) *Term {
	switch x := v.(type) {
	case bool:
		return &Term{K: KConst, Val: x, Lit: strconv.FormatBool(x), Ty: TB}
	case int:
		return &Term{K: KConst, Val: int64(x), Lit: strconv.Itoa(x), Ty: TI}
	case int64:
		return &Term{K: KConst, Val: x, Lit: strconv.FormatInt(x, 10), Ty: TI}
	case string:
		return &Term{K: KConst, Val: x, Lit: `"` + x + `"`, Ty: TS}
	case []int64:
		var sb strings.Builder
		sb.WriteByte('(')
		for i, e := range x {
			if i > 0 {
				sb.WriteByte(' ')
			}
			sb.WriteString(strconv.FormatInt(e, 10))
		}
		sb.WriteByte(')')
		return &Term{K: KConst, Val: x, Lit: sb.String(), Ty: TIL}
	case []string:
		var sb strings.Builder
		sb.WriteByte('(')
		for i, e := range x {
			if i > 0 {
				sb.WriteByte(' ')
			}
			sb.WriteString(`"` + e + `"`)
		}
		sb.WriteByte(')')
		return &Term{K: KConst, Val: x, Lit: sb.String(), Ty: TSL}
	}
	panic(fmt.Sprintf("term.Const: unsupported %T", v))
}

// Named returns a constant that is written as an identifier in the source
// (a ConstantMap entry or a builtin constant).
func Named(name string, v interface{}) *Term {
	t := Const(v)
	t.Lit = name
	return t
}

func Var(name string, ty Ty) *Term { return &Term{K: KVar, Name: name, Ty: ty} }

func Op(name string, ty Ty, kids ...*Term) *Term {
	return &Term{K: KOp, Name: name, Kids: kids, Ty: ty}
}

func If(c, a, b *Term) *Term {
	return &Term{K: KIf, Name: "if", Kids: []*Term{c, a, b}, Ty: a.Ty}
}

// Src renders the term in prefix (S-expression) notation.
func (t *Term) Src() string {
	var sb strings.Builder
	t.src(&sb)
	return sb.String()
}

func (t *Term) src(sb *strings.Builder) {
	switch t.K {
	case KConst:
		sb.WriteString(t.Lit)
	case KVar:
		sb.WriteString(t.Name)
	default:
		sb.WriteByte('(')
		sb.WriteString(t.Name)
		for _, k := range t.Kids {
			sb.WriteByte(' ')
			k.src(sb)
		}
		sb.WriteByte(')')
	}
}

func (t *Term) Clone() *Term {
	c := *t
	if len(t.Kids) > 0 {
		c.Kids = make([]*Term, len(t.Kids))
		for i, k := range t.Kids {
			c.Kids[i] = k.Clone()
		}
	}
	return &c
}

func (t *Term) Size() int {
	s := 1
	for _, k := range t.Kids {
		s += k.Size()
	}
	return s
}

func (t *Term) Depth() int {
	d := 0
	for _, k := range t.Kids {
		if x := k.Depth(); x > d {
			d = x
		}
	}
	return d + 1
}

// Walk visits the tree in pre-order.
func (t *Term) Walk(f func(*Term)) {
	f(t)
	for _, k := range t.Kids {
		k.Walk(f)
	}
}

// VarDecl declares a variable of a program.
type VarDecl struct {
	Name string
	Ty   Ty
}

// RenameVars gives every variable leaf a fresh name, numbered left to right in
// source order (b0, n1, s2, ...). This is a symmetry reduction: a binding of a
// repeated variable is the diagonal of the distinct-variable binding space and
// the engine never caches fetches.
func (t *Term) RenameVars() []VarDecl {
	var vars []VarDecl
	t.rename(&vars)
	return vars
}

// Keep marks a variable that RenameVars must leave alone (its NAME is what
// the case is about).
const Keep = "keep-name"

func KeptVar(name string, ty Ty) *Term { return &Term{K: KVar, Name: name, Ty: ty, Val: Keep} }

func (t *Term) rename(vars *[]VarDecl) {
	if t.K == KVar && t.Val == Keep {
		for _, v := range *vars {
			if v.Name == t.Name {
				return
			}
		}
		*vars = append(*vars, VarDecl{t.Name, t.Ty})
		return
	}
	if t.K == KVar {
		pfx := [...]string{"b", "n", "s", "li", "ls", "x"}[t.Ty]
		t.Name = fmt.Sprintf("%s%d", pfx, len(*vars))
		*vars = append(*vars, VarDecl{t.Name, t.Ty})
		return
	}
	for _, k := range t.Kids {
		k.rename(vars)
	}
}

// Vars lists the distinct variables in source order without renaming.
func (t *Term) Vars() []VarDecl {
	var vars []VarDecl
	seen := map[string]bool{}
	t.Walk(func(n *Term) {
		if n.K == KVar && !seen[n.Name] {
			seen[n.Name] = true
			vars = append(vars, VarDecl{n.Name, n.Ty})
		}
	})
	return vars
}

func IsAnd(n string) bool { return n == "and" || n == "&" || n == "&&" }
func IsOr(n string) bool  { return n == "or" || n == "|" || n == "||" }

// Equal is structural equality (names, constant values by their rendering).
func Equal(a, b *Term) bool {
	if a.K != b.K || a.Name != b.Name || len(a.Kids) != len(b.Kids) {
		return false
	}
	if a.K == KConst && fmt.Sprintf("%T:%v", a.Val, a.Val) != fmt.Sprintf("%T:%v", b.Val, b.Val) {
		return false
	}
	for i := range a.Kids {
		if !Equal(a.Kids[i], b.Kids[i]) {
			return false
		}
	}
	return true
}

// Key is a canonical string for structural comparison / multiset use.
func (t *Term) Key() string {
	switch t.K {
	case KConst:
		return fmt.Sprintf("#%T:%v", t.Val, t.Val)
	case KVar:
		return "$" + t.Name
	}
	var sb strings.Builder
	sb.WriteByte('(')
	sb.WriteString(t.Name)
	for _, k := range t.Kids {
		sb.WriteByte(' ')
		sb.WriteString(k.Key())
	}
	sb.WriteByte(')')
	return sb.String()
}

// ---------- exhaustive enumeration by size ----------

// OpSig is one operator signature of an alphabet.
type OpSig struct {
	Name string
	Args []Ty
	Ret  Ty
	If   bool
}

// Alphabet is a typed grammar: leaves per type and operator signatures.
type Alphabet struct {
	Leaves map[Ty][]*Term
	Ops    []OpSig
}

type Gen struct {
	A    *Alphabet
	memo map[[2]int][]*Term
}

func NewGen(a *Alphabet) *Gen { return &Gen{A: a, memo: map[[2]int][]*Term{}} }

// Exactly returns all terms of the given type with exactly size nodes.
// Sub-terms are shared between results: Clone before mutating.
func (g *Gen) Exactly(ty Ty, size int) []*Term {
	key := [2]int{int(ty), size}
	if r, ok := g.memo[key]; ok {
		return r
	}
	var res []*Term
	if size == 1 {
		res = append(res, g.A.Leaves[ty]...)
		for _, o := range g.A.Ops {
			if o.Ret == ty && len(o.Args) == 0 {
				res = append(res, &Term{K: KOp, Name: o.Name, Ty: ty})
			}
		}
	} else {
		for _, o := range g.A.Ops {
			if o.Ret != ty || len(o.Args) == 0 {
				continue
			}
			n := len(o.Args)
			if size-1 < n {
				continue
			}
			o := o
			var rec func(i, remain int, cur []*Term)
			rec = func(i, remain int, cur []*Term) {
				if i == n-1 {
					for _, k := range g.Exactly(o.Args[i], remain) {
						kids := append(append(make([]*Term, 0, n), cur...), k)
						kind := KOp
						if o.If {
							kind = KIf
						}
						res = append(res, &Term{K: kind, Name: o.Name, Kids: kids, Ty: ty})
					}
					return
				}
				for s := 1; s <= remain-(n-1-i); s++ {
					for _, k := range g.Exactly(o.Args[i], s) {
						rec(i+1, remain-s, append(cur, k))
					}
				}
			}
			rec(0, size-1, nil)
		}
	}
	g.memo[key] = res
	return res
}

// UpTo returns fresh (cloned, variable-renamed) programs of the given root
// types with at most maxSize nodes, smallest first.
func (g *Gen) UpTo(roots []Ty, maxSize int) []*Term {
	var out []*Term
	for s := 1; s <= maxSize; s++ {
		for _, ty := range roots {
			for _, t := range g.Exactly(ty, s) {
				out = append(out, t.Clone())
			}
		}
	}
	return out
}
