package props

import (
	"fmt"
	"strings"
	"sync/atomic"

	eval "github.com/onheap/eval"

	"verifmc/drive"
	"verifmc/ref"
	"verifmc/rep"
	"verifmc/term"
)

func init() { Registry["C17"] = c17 }

func listsOver(n int, maxLen int) [][]int {
	out := [][]int{{}}
	prev := [][]int{{}}
	for l := 1; l <= maxLen; l++ {
		var cur [][]int
		for _, p := range prev {
			for e := 0; e < n; e++ {
				cur = append(cur, append(append([]int{}, p...), e))
			}
		}
		out = append(out, cur...)
		prev = cur
	}
	return out
}

// c17List materialises an abstract list (indices into the universe, filler
// counted separately) as a Go value of the element type.
// universes: elements of very different shape (1, 64 and 70 bytes; 1 and the
// int64 extremes) so that any pre-filter on length / magnitude is exercised
var (
	c17StrU = []string{"a", strings.Repeat("b", 64), strings.Repeat("c", 70)}
	c17IntU = []int64{1, -9223372036854775808, 9223372036854775807}
)

func c17FillS(i int) string {
	s := fmt.Sprintf("f%d", i)
	switch i % 4 {
	case 1:
		s += strings.Repeat("_", 64-len(s)) // exactly 64 bytes
	case 2:
		s += strings.Repeat("é", 40)
	}
	return s
}

func c17FillI(i int) int64 {
	if i%2 == 1 {
		return -int64(1000 + i)
	}
	return int64(1000+i) << uint(i%3*20)
}

func c17List(idx []int, strs bool, padFront, padBack int, fillBase int) interface{} {
	return c17ListU(nil, idx, strs, padFront, padBack, fillBase)
}

// c17Collide: string universes whose first two elements have the same hash
// under a common 32-bit string hash (FNV-1a, Java/31, CRC-32, djb2): a lookup
// structure keyed by such a hash must still tell them apart.
var c17Collide = [][]string{
	{"costarring", "liquid", "declinate"},
	{"altarage", "zinke", "macallums"},
	{"declinate", "macallums", "liquid"},
	{"Aa", "BB", "AaAa"},
	{"AaAa", "BBBB", "AaBB"},
	{"plumless", "buckeroo", "hetairas"},
	{"hetairas", "mentioner", "heliotropes"},
	{"heliotropes", "neurospora", "mentioner"},
	// strings that LOOK like numbers / literals (a list's element type is what was written, not what it resembles)
	{"404", "-1", "007"},
	{"1", "01", "+1"},
	{"true", "false", "0"},
	{"1.0", "1e3", "0x10"},
}

// c17IntAlt: int universes whose elements have long runs of trailing zero
// bits, huge magnitudes or differ in one bit only (arithmetic on the elements
// instead of comparison must still decide membership exactly).
var c17IntAlt = [][]int64{
	{4294967296, 8589934592, 0},
	{-9223372036854775808, 2, 4},
	{1 << 62, 4, 6},
	{1 << 32, 1<<32 + 1, 1 << 33},
	{-1, 0, 1},
	{9223372036854775807, -9223372036854775807, 65536},
}

func c17ListU(u []string, idx []int, strs bool, padFront, padBack int, fillBase int) interface{} {
	return c17ListUI(u, nil, idx, strs, padFront, padBack, fillBase)
}

func c17ListUI(u []string, ui []int64, idx []int, strs bool, padFront, padBack int, fillBase int) interface{} {
	if u == nil {
		u = c17StrU
	}
	if ui == nil {
		ui = c17IntU
	}
	if strs {
		var l []string
		for i := 0; i < padFront; i++ {
			l = append(l, c17FillS(fillBase+i))
		}
		for _, e := range idx {
			l = append(l, u[e])
		}
		for i := 0; i < padBack; i++ {
			l = append(l, c17FillS(fillBase+padFront+i))
		}
		if l == nil {
			l = []string{}
		}
		return l
	}
	var l []int64
	for i := 0; i < padFront; i++ {
		l = append(l, c17FillI(fillBase+i))
	}
	for _, e := range idx {
		l = append(l, ui[e])
	}
	for i := 0; i < padBack; i++ {
		l = append(l, c17FillI(fillBase+padFront+i))
	}
	if l == nil {
		l = []int64{}
	}
	return l
}

func c17Lit(v interface{}) string {
	switch l := v.(type) {
	case []int64:
		p := make([]string, len(l))
		for i, e := range l {
			p[i] = fmt.Sprint(e)
		}
		return "(" + strings.Join(p, " ") + ")"
	case []string:
		p := make([]string, len(l))
		for i, e := range l {
			p[i] = `"` + e + `"`
		}
		return "(" + strings.Join(p, " ") + ")"
	case int64:
		return fmt.Sprint(l)
	case string:
		return `"` + l + `"`
	}
	panic("c17Lit")
}

type c17eval struct {
	h    *drive.Harness
	vars []term.VarDecl
	n    *int64
}

// run evaluates (op A B) with each operand passed as a literal (form bit 0)
// or as a variable (form bit 1); optimisations default (folding may run the
// operator at compile time) and off.
func (c *c17eval) run(op string, a, b interface{}, formA, formB bool, opt drive.Opt) drive.Out {
	sa, sb := "va", "vb"
	if !formA {
		sa = c17Lit(a)
	}
	if !formB {
		sb = c17Lit(b)
	}
	src := "(" + op + " " + sa + " " + sb + ")"
	cfg := c.h.NewConfig(c.vars, opt)
	e, err := c.h.Compile(cfg, src, 0)
	atomic.AddInt64(c.n, 1)
	if err != nil {
		return drive.Out{Err: err}
	}
	f := drive.NewFetcher(c.h, c.vars, opt)
	f.Vals[0], f.Vals[1] = a, b
	c.h.Reset()
	return c.h.Eval(e, f)
}

func c17(r *rep.Run) {
	maxLen := 3
	totals := []int{31, 33, 63, 64, 65, 98, 99, 100, 101, 127, 129, 150, 255, 257} // around the 100-element switch and every power of two up to 256
	r.SetBudget(300e9)
	if r.Thorough() {
		totals = []int{15, 16, 17, 31, 32, 33, 50, 63, 64, 65, 97, 98, 99, 100, 101, 102, 127, 128, 129, 150, 199, 200, 201, 255, 256, 257, 511, 513, 1000, 1023, 1025}
		r.SetBudget(1800e9)
	}
	r.Rule = "every pair of lists of length <= 3 over a 3-element universe (all duplicates/orders) for int64 and for string elements; each pair unpadded and padded with disjoint filler (front / back / both sides of the core) to every total length in the list around the 100-element switch, with the left and with the right list the longer one; each operand passed as a literal and as a variable (4 forms), optimisations on and off; typed-empty lists of both element types and the empty literal in either position; every element-type mismatch; 8 further string universes whose elements collide under common 32-bit string hashes (lists of length <= 2); every history (depth 3) of 3 contents written in place into ONE list-variable buffer of length 3..256 under `in` and `overlap`. 4 universes of strings that look like numbers/literals; 6 int universes with long trailing-zero runs, extremes and one-bit differences; the list also as a named constant of the caller's config (compiled twice, the caller's list must stay intact). `in`: every probe (universe elements, a filler element, an absent value, wrong-typed probes) against every such list passed as literal, variable and pre-built set. Oracle: map-based set intersection/membership; overlap(A,B) == overlap(B,A); mismatches are errors. non-trivial = evaluations whose two lists total >= 100 elements"
	r.Assume = []string{"universe of 3 elements of very different shape (1/64/70-byte strings; 1, min, max) + disjoint filler of mixed lengths, magnitudes and signs; other element values are not explored"}
	r.Cov["total_lengths"] = totals
	lists := listsOver(3, maxLen)
	type job struct {
		a, b []int
		strs bool
		u    []string // string universe (nil: the default one)
		ui   []int64  // int universe (nil: the default one)
	}
	var jobs []job
	for _, strs := range []bool{false, true} {
		for _, a := range lists {
			for _, b := range lists {
				jobs = append(jobs, job{a, b, strs, nil, nil})
			}
		}
	}
	for _, u := range c17Collide {
		for _, a := range lists {
			for _, b := range lists {
				if len(a) <= 2 && len(b) <= 2 && len(a)+len(b) > 0 {
					jobs = append(jobs, job{a, b, true, u, nil})
				}
			}
		}
	}
	for _, ui := range c17IntAlt {
		for _, a := range lists {
			for _, b := range lists {
				if len(a) <= 2 && len(b) <= 2 && len(a)+len(b) > 0 {
					jobs = append(jobs, job{a, b, false, nil, ui})
				}
			}
		}
	}
	hs := harnesses(r.Workers)
	vars := []term.VarDecl{{Name: "va", Ty: term.TX}, {Name: "vb", Ty: term.TX}}
	var evals, big int64
	opts := []drive.Opt{{CF: true, RN: true, FE: true, RO: true}, {}}
	r.ParallelFor(len(jobs), func(w, i int) {
		j := jobs[i]
		c := &c17eval{h: hs[w], vars: vars, n: &evals}
		r.Note(w, fmt.Sprint(j))
		type variant struct {
			a, b interface{}
			desc string
		}
		vs := []variant{{c17ListUI(j.u, j.ui, j.a, j.strs, 0, 0, 0), c17ListUI(j.u, j.ui, j.b, j.strs, 0, 0, 100), "unpadded"}}
		for _, tot := range totals {
			pad := tot - len(j.a) - len(j.b)
			if pad < 0 {
				continue
			}
			for _, where := range []int{0, 1, 2} { // filler in front, behind, around the core
				pf, pb := pad, 0
				if where == 1 {
					pf, pb = 0, pad
				} else if where == 2 {
					pf, pb = pad/2, pad-pad/2
				}
				vs = append(vs,
					variant{c17ListUI(j.u, j.ui, j.a, j.strs, pf, pb, 0), c17ListUI(j.u, j.ui, j.b, j.strs, 0, 0, 5000), sprintf("total %d, left longer, filler %d/%d", tot, pf, pb)},
					variant{c17ListUI(j.u, j.ui, j.a, j.strs, 0, 0, 0), c17ListUI(j.u, j.ui, j.b, j.strs, pf, pb, 5000), sprintf("total %d, right longer, filler %d/%d", tot, pf, pb)})
			}
			// both lists padded in FRONT by the same amount with different filler: common elements sit at the same index
			if pad >= 2 {
				vs = append(vs, variant{c17ListUI(j.u, j.ui, j.a, j.strs, pad/2, 0, 0), c17ListUI(j.u, j.ui, j.b, j.strs, pad/2, 0, 5000), sprintf("total %d, index-aligned cores", tot)})
				// a list against itself
				self := c17ListUI(j.u, j.ui, j.a, j.strs, pad/2, pad-pad/2, 0)
				vs = append(vs, variant{self, self, sprintf("total %d, a list against itself", 2*lenOf(self))})
			}
			// both padded (balanced)
			vs = append(vs, variant{c17ListUI(j.u, j.ui, j.a, j.strs, pad/2, 0, 0), c17ListUI(j.u, j.ui, j.b, j.strs, 0, pad-pad/2, 5000), sprintf("total %d, both padded", tot)})
		}
		for vi, v := range vs {
			forms := [][2]bool{{true, true}}
			if vi == 0 || vi%7 == i%7 {
				forms = [][2]bool{{true, true}, {false, false}, {true, false}, {false, true}}
			}
			for _, f := range forms {
				for oi, o := range opts {
					if oi == 1 && f[0] && f[1] && vi != 0 {
						continue // variables only: options make no difference to the operator
					}
					want, werr := ref.Builtin("overlap", []interface{}{asWritten(v.a, f[0]), asWritten(v.b, f[1])})
					got := c.run("overlap", v.a, v.b, f[0], f[1], o)
					rev := c.run("overlap", v.b, v.a, f[1], f[0], o)
					if lenOf(v.a)+lenOf(v.b) >= 100 {
						atomic.AddInt64(&big, 2)
					}
					d := map[string]interface{}{"A": trunc(c17Lit(v.a), 300), "B": trunc(c17Lit(v.b), 300), "variant": v.desc, "A_as_variable": f[0], "B_as_variable": f[1], "config": o.String()}
					if !drive.SameOutcome(got, refOut(want, werr)) {
						r.Violate("overlap-wrong", v.desc, sprintf("(overlap A B) = %s but the sets %s (%s)", got, map[bool]string{true: "intersect", false: "are disjoint"}[want == true], v.desc), d)
					}
					if !drive.SameOutcome(got, rev) {
						r.Violate("overlap-asymmetric", v.desc, sprintf("(overlap A B) = %s but (overlap B A) = %s (%s)", got, rev, v.desc), d)
					}
				}
			}
		}
		// in: every probe against list A (unpadded and padded variants of A)
		var probes []interface{}
		if j.u != nil {
			probes = []interface{}{j.u[0], j.u[1], j.u[2], "zz", "", int64(404), int64(1)}
		} else if j.ui != nil {
			probes = []interface{}{j.ui[0], j.ui[1], j.ui[2], int64(0), int64(1), int64(2), int64(-9223372036854775808), int64(1 << 32), ""}
		} else if j.strs {
			probes = []interface{}{c17StrU[0], c17StrU[1], c17StrU[2], c17FillS(1), c17FillS(3), "zz", "", strings.Repeat("b", 63), int64(1)}
		} else {
			probes = []interface{}{c17IntU[0], c17IntU[1], c17IntU[2], c17FillI(1), c17FillI(2), int64(0), "a", ""}
		}
		if len(j.b) == 0 { // once per list A
			for _, pad := range []int{0, 97, 150} {
				for _, where := range []int{0, 1} {
					if pad == 0 && where == 1 {
						continue
					}
					pf, pb := pad, 0
					if where == 1 {
						pf, pb = 0, pad
					}
					la := c17ListUI(j.u, j.ui, j.a, j.strs, pf, pb, 0)
					var set interface{}
					if j.strs {
						m := map[string]struct{}{}
						for _, e := range la.([]string) {
							m[e] = struct{}{}
						}
						set = m
					} else {
						m := map[int64]struct{}{}
						for _, e := range la.([]int64) {
							m[e] = struct{}{}
						}
						set = m
					}
					for _, p := range probes {
						for _, f := range [][2]bool{{true, true}, {false, false}, {true, false}, {false, true}} {
							for _, o := range opts {
								want, werr := ref.Builtin("in", []interface{}{p, asWritten(la, f[1])})
								got := c.run("in", p, la, f[0], f[1], o)
								d := map[string]interface{}{"probe": fmt.Sprint(p), "list": trunc(c17Lit(la), 300), "probe_as_variable": f[0], "list_as_variable": f[1], "config": o.String()}
								if !drive.SameOutcome(got, refOut(want, werr)) {
									r.Violate("in-wrong", fmt.Sprint(p, pad), sprintf("(in %v L) = %s but membership is %v/%v", p, got, want, werr), d)
								}
							}
						}
						// the list as a NAMED CONSTANT of the caller's config, compiled twice
						// with the same config: the caller's list must stay what it was
						{
							pristine := c17Lit(la)
							for _, o := range opts {
								cfg := c.h.NewConfig(c.vars, o)
								cfg.ConstantMap["LST"] = la
								for round := 0; round < 2; round++ {
									e, err := c.h.Compile(cfg, "(in va LST)", 0)
									atomic.AddInt64(c.n, 1)
									var got drive.Out
									if err != nil {
										got = drive.Out{Err: err}
									} else {
										f := drive.NewFetcher(c.h, c.vars, o)
										f.Vals[0] = p
										c.h.Reset()
										got = c.h.Eval(e, f)
									}
									want, werr := ref.Builtin("in", []interface{}{p, la})
									d := map[string]interface{}{"probe": fmt.Sprint(p), "list": trunc(pristine, 300), "config": o.String(), "compilation": round + 1}
									if now := c17Lit(la); now != pristine {
										r.Violate("constant-list-modified", fmt.Sprint(pad, j.strs), sprintf("compiling (in va LST) rewrote the caller's list constant: %s", trunc(now, 200)), d)
										break
									}
									if !drive.SameOutcome(got, refOut(want, werr)) {
										r.Violate("in-wrong", fmt.Sprint("const", p, pad), sprintf("(in %v LST) with the list as a named constant = %s but membership is %v/%v (compilation #%d with this config)", p, got, want, werr, round+1), d)
									}
								}
							}
						}
						// pre-built set through a variable
						for _, pf := range []bool{true, false} {
							got := c.runSet(p, set, pf)
							wantS, werrS := ref.Builtin("in", []interface{}{p, set})
							if !drive.SameOutcome(got, refOut(wantS, werrS)) {
								r.Violate("in-set-wrong", fmt.Sprint(p, pad), sprintf("(in %v <pre-built set>) = %s but membership is %v/%v", p, got, wantS, werrS), map[string]interface{}{"probe": fmt.Sprint(p), "set_of": trunc(c17Lit(la), 300)})
							}
						}
					}
				}
			}
		}
		if i%397 == 0 {
			r.Sample(10, map[string]interface{}{"A": c17Lit(vs[0].a), "B": c17Lit(vs[0].b), "variants": len(vs)})
		}
	})
	// string elements containing blanks: lists that differ only in where the
	// element boundaries fall, compiled one after the other in one process
	{
		c := &c17eval{h: hs[0], vars: vars, n: &evals}
		words := [][]string{{"x y", "z"}, {"x", "y z"}, {"x y z"}, {"x", "y", "z"}, {"x  y", "z"}, {"x y", " z"}, {"", "x y z"}, {"x y z", ""}}
		for rep := 0; rep < 2; rep++ {
			for _, la := range words {
				for _, lb := range words {
					for _, f := range [][2]bool{{false, false}, {false, true}, {true, false}} {
						for _, o := range opts {
							want, werr := ref.Builtin("overlap", []interface{}{la, lb})
							got := c.run("overlap", la, lb, f[0], f[1], o)
							if !drive.SameOutcome(got, refOut(want, werr)) {
								r.Violate("overlap-wrong", "blanks", sprintf("(overlap %s %s) = %s, expected %v", c17Lit(la), c17Lit(lb), got, want), map[string]interface{}{"A": c17Lit(la), "B": c17Lit(lb), "config": o.String()})
							}
						}
					}
				}
				for _, probe := range []string{"x", "x y", "y z", "x y z", "z", " z", ""} {
					for _, f := range [][2]bool{{false, false}, {true, false}} {
						for _, o := range opts {
							want, werr := ref.Builtin("in", []interface{}{probe, la})
							got := c.run("in", probe, la, f[0], f[1], o)
							if !drive.SameOutcome(got, refOut(want, werr)) {
								r.Violate("in-wrong", "blanks", sprintf("(in %q %s) = %s, expected %v", probe, c17Lit(la), got, want), map[string]interface{}{"list": c17Lit(la), "probe": probe, "config": o.String()})
							}
						}
					}
				}
			}
		}
		// the same for int lists whose texts are related: (1 23) vs (12 3) vs (123)
		for _, la := range [][]int64{{1, 23}, {12, 3}, {123}, {1, 2, 3}, {-1, 23}, {-12, 3}} {
			for _, probe := range []int64{1, 12, 123, 23, 3, -1} {
				for _, o := range opts {
					want, werr := ref.Builtin("in", []interface{}{probe, la})
					got := c.run("in", probe, la, false, false, o)
					if !drive.SameOutcome(got, refOut(want, werr)) {
						r.Violate("in-wrong", "int-texts", sprintf("(in %d %s) = %s, expected %v", probe, c17Lit(la), got, want), nil)
					}
				}
			}
		}
	}
	// a list variable whose backing array the caller reuses: the SAME slice
	// object bound in successive evaluations with different contents, every
	// history of 3 contents up to depth 3, one compiled program per history
	{
		h := hs[0]
		var hist int64
		for _, n := range []int{3, 63, 64, 65, 99, 100, 101, 128, 150, 256} {
			for _, strs := range []bool{false, true} {
				contents := make([]interface{}, 3)
				for ci := range contents {
					// content ci holds universe element ci (only) somewhere in the middle
					contents[ci] = c17List([]int{ci}, strs, n/2, n-n/2-1, 10000*(ci+1))
				}
				var probes []interface{}
				var other interface{}
				if strs {
					probes = []interface{}{c17StrU[0], c17StrU[1], c17StrU[2], c17FillS(10000 + 1)}
					other = []string{c17StrU[0], c17FillS(20000 + 2)}
				} else {
					probes = []interface{}{c17IntU[0], c17IntU[1], c17IntU[2], c17FillI(10000 + 1)}
					other = []int64{c17IntU[0], c17FillI(20000 + 2)}
				}
				for _, o := range opts {
					for code := 0; code < 27; code++ {
						seq := []int{code % 3, code / 3 % 3, code / 9}
						cfg := h.NewConfig(vars, o)
						eIn, err1 := h.Compile(cfg, "(in va vb)", 0)
						eOv, err2 := h.Compile(cfg, "(overlap vb "+c17Lit(other)+")", 0)
						eOv2, err3 := h.Compile(cfg, "(overlap "+c17Lit(other)+" vb)", 0)
						if err1 != nil || err2 != nil || err3 != nil {
							r.Violate("compile", "reuse", sprintf("list programs do not compile: %v %v %v", err1, err2, err3), nil)
							continue
						}
						var buf interface{}
						if strs {
							buf = make([]string, n)
						} else {
							buf = make([]int64, n)
						}
						for step, ci := range seq {
							if strs {
								copy(buf.([]string), contents[ci].([]string))
							} else {
								copy(buf.([]int64), contents[ci].([]int64))
							}
							d := map[string]interface{}{"list_length": n, "strings": strs, "contents_history": fmt.Sprint(seq[:step+1]), "config": o.String()}
							for _, p := range probes {
								f := drive.NewFetcher(h, vars, o)
								f.Vals[0], f.Vals[1] = p, buf
								h.Reset()
								got := h.Eval(eIn, f)
								atomic.AddInt64(&evals, 1)
								want, werr := ref.Builtin("in", []interface{}{p, contents[ci]})
								if !drive.SameOutcome(got, refOut(want, werr)) {
									r.Violate("in-wrong", fmt.Sprint("reuse", n, strs), sprintf("(in %v L) = %s but membership is %v, after the caller rewrote the %d-element list variable's buffer in place", p, got, want, n), d)
								}
							}
							for _, e := range []*eval.Expr{eOv, eOv2} {
								f := drive.NewFetcher(h, vars, o)
								f.Vals[1] = buf
								h.Reset()
								got := h.Eval(e, f)
								atomic.AddInt64(&evals, 1)
								want, werr := ref.Builtin("overlap", []interface{}{contents[ci], other})
								if !drive.SameOutcome(got, refOut(want, werr)) {
									r.Violate("overlap-wrong", fmt.Sprint("reuse", n, strs), sprintf("overlap of the rewritten %d-element list variable with %s = %s, expected %v", n, c17Lit(other), got, want), d)
								}
							}
						}
						hist++
					}
				}
			}
		}
		r.Cov["reused_buffer_histories"] = hist
	}
	// mismatches and odd operands
	c := &c17eval{h: hs[0], vars: vars, n: &evals}
	odd := []interface{}{[]int64{1, 2}, []string{"a"}, []int64{}, []string{}, int64(1), "a", true, nil}
	for _, a := range odd {
		for _, b := range odd {
			for _, op := range []string{"overlap", "in"} {
				want, werr := ref.Builtin(op, []interface{}{a, b})
				got := c.run(op, a, b, true, true, drive.Opt{})
				if !drive.SameOutcome(got, refOut(want, werr)) {
					r.Violate("mismatch", fmt.Sprintf("%s %T %T", op, a, b), sprintf("(%s %T(%v) %T(%v)) = %s, expected %v/%v", op, a, a, b, b, got, want, werr), nil)
				}
			}
		}
	}
	r.Add(int64(len(jobs)), evals, evals, evals, big)
	r.Finish()
}

// asWritten: an empty list written as a literal is the untyped empty list
// (), which the parser reads as an empty string list.
func asWritten(v interface{}, asVariable bool) interface{} {
	if !asVariable && lenOf(v) == 0 {
		if _, isList := v.([]int64); isList {
			return []string{}
		}
	}
	return v
}

func lenOf(v interface{}) int {
	switch l := v.(type) {
	case []int64:
		return len(l)
	case []string:
		return len(l)
	}
	return 0
}

func (c *c17eval) runSet(p interface{}, set interface{}, probeVar bool) drive.Out {
	sp := "va"
	if !probeVar {
		sp = c17Lit(p)
	}
	cfg := c.h.NewConfig(c.vars, drive.Opt{FE: true})
	e, err := c.h.Compile(cfg, "(in "+sp+" vb)", 0)
	atomic.AddInt64(c.n, 1)
	if err != nil {
		return drive.Out{Err: err}
	}
	f := drive.NewFetcher(c.h, c.vars, drive.Opt{})
	f.Vals[0], f.Vals[1] = p, set
	c.h.Reset()
	return c.h.Eval(e, f)
}

var _ = eval.Dump
