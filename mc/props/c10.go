package props

import (
	"sync/atomic"

	eval "github.com/onheap/eval"

	"verifmc/drive"
	"verifmc/ref"
	"verifmc/rep"
	"verifmc/term"
)

func init() { Registry["C10"] = c10 }

// C10 operators. Declared stateless in the config: s1 (successor), m1
// (double). Registered but NOT declared: a1, o1, u1 — their names sort
// before, between and after the declared ones — and boom. The undeclared
// ones are stateful: they add their own call ordinal to the argument, so a
// result baked in at compile time (or a skipped / extra call) changes what
// later evaluations return.
func c10Alphabet() *term.Alphabet {
	return &term.Alphabet{
		Leaves: map[term.Ty][]*term.Term{
			B:        {term.Const(true), term.Const(false), term.Var("b", B), {K: term.KConst, Val: int64(1), Lit: "1", Ty: B}},
			I:        {term.Const(1), term.Const(0), term.Var("n", I), {K: term.KConst, Val: "1", Lit: `"1"`, Ty: I}},
			term.TSL: {term.Const([]string{})},
		},
		Ops: []term.OpSig{
			sig("and", B, B, B), sig("or", B, B, B), sig("not", B, B),
			{Name: "if", Args: []term.Ty{B, I, I}, Ret: I, If: true},
			sig("=", B, I, I), sig("+", I, I, I), sig("/", I, I, I),
			sig("s1", I, I), sig("m1", I, I),
			sig("a1", I, I), sig("o1", I), sig("u1", I, I), sig("b2", I, I, I),
			sig("in", B, I, term.TSL),
			sig("boom", B),
		},
	}
}

type c10state struct {
	ord map[string]int64 // per-operator call ordinal
}

func (s *c10state) fns() map[string]ref.CustomFn {
	stateful := func(name string) ref.CustomFn {
		return func(a []interface{}) (interface{}, error) {
			s.ord[name]++
			var base int64
			if len(a) == 1 {
				v, ok := a[0].(int64)
				if !ok {
					return nil, ref.ErrBuiltin
				}
				base = v
			}
			return base + 100*s.ord[name], nil
		}
	}
	pure := func(f func(int64) int64) ref.CustomFn {
		return func(a []interface{}) (interface{}, error) {
			if len(a) != 1 {
				return nil, ref.ErrBuiltin
			}
			v, ok := a[0].(int64)
			if !ok {
				return nil, ref.ErrBuiltin
			}
			return f(v), nil
		}
	}
	return map[string]ref.CustomFn{
		"s1": pure(func(v int64) int64 { return v + 1 }),
		"m1": pure(func(v int64) int64 { return 2 * v }),
		"a1": stateful("a1"),
		"o1": stateful("o1"),
		"u1": stateful("u1"),
		"b2": func(a []interface{}) (interface{}, error) {
			s.ord["b2"]++
			if len(a) != 2 {
				return nil, ref.ErrBuiltin
			}
			x, ok1 := a[0].(int64)
			y, ok2 := a[1].(int64)
			if !ok1 || !ok2 {
				return nil, ref.ErrBuiltin
			}
			return x - y + 100*s.ord["b2"], nil
		},
		"boom": func([]interface{}) (interface{}, error) { return nil, ref.ErrOp },
	}
}

var c10Stateless = map[string]bool{"s1": true, "m1": true}

// c10FoldTo: the constant the permitted rewrites can turn t into, if any:
// a constant is itself; an and/or with an operand that folds to its deciding
// constant folds to that constant; an application of a builtin or declared
// stateless operator whose operands all fold and which succeeds folds to its
// value. Variables, `if` and undeclared operators never fold.
func c10FoldTo(t *term.Term, pure map[string]ref.CustomFn) (interface{}, bool) {
	switch t.K {
	case term.KConst:
		return t.Val, true
	case term.KVar, term.KIf:
		return nil, false
	}
	vals := make([]interface{}, len(t.Kids))
	all := true
	isAnd, isOr := term.IsAnd(t.Name), term.IsOr(t.Name)
	for i, k := range t.Kids {
		v, ok := c10FoldTo(k, pure)
		if !ok {
			all = false
			continue
		}
		vals[i] = v
		if b, isB := v.(bool); isB && ((isAnd && !b) || (isOr && b)) {
			return b, true
		}
	}
	if !all {
		return nil, false
	}
	if fn, ok := pure[t.Name]; ok && c10Stateless[t.Name] {
		v, err := fn(vals)
		return v, err == nil
	}
	if !ref.IsBuiltin(t.Name) {
		return nil, false
	}
	v, err := ref.Builtin(t.Name, vals)
	if err != nil {
		return nil, false
	}
	return v, true
}

// c10Items: the ways the operand list of an and/or node t of the given
// family can be spliced by ReduceNesting: each operand stays one item, or (if
// it is an and/or of the same family) is replaced by its own items.
func c10Items(kids []*term.Term, and bool, rn bool) [][]*term.Term {
	alts := [][]*term.Term{{}}
	for _, k := range kids {
		kalts := [][]*term.Term{{k}}
		if rn && k.K == term.KOp && ((and && term.IsAnd(k.Name)) || (!and && term.IsOr(k.Name))) {
			kalts = append(kalts, c10Items(k.Kids, and, rn)...)
		}
		var next [][]*term.Term
		for _, a := range alts {
			for _, ka := range kalts {
				next = append(next, append(append([]*term.Term{}, a...), ka...))
			}
		}
		alts = next
		if len(alts) > 4096 {
			alts = alts[:4096]
		}
	}
	return alts
}

// c10Rel: can D be obtained from T using only the permitted rewrites?
// (i) a variable-free, all-stateless, successfully evaluating sub-tree is
// replaced by its value; (ii) an and/or with a deciding constant operand
// (after rewriting its operands) is replaced by that constant; with rn the
// operands of a nested and/or of the same family may be spliced into the
// parent; with perm the operands of and/or may be permuted.
func c10Rel(t, d *term.Term, pure map[string]ref.CustomFn, rn, perm bool) bool {
	if d.K == term.KConst {
		v, ok := c10FoldTo(t, pure)
		return ok && ref.ValEqual(v, d.Val)
	}
	if t.K != d.K || t.Name != d.Name {
		return false
	}
	if t.K == term.KOp && (term.IsAnd(t.Name) || term.IsOr(t.Name)) && (rn || perm) {
		for _, items := range c10Items(t.Kids, term.IsAnd(t.Name), rn) {
			if len(items) != len(d.Kids) {
				continue
			}
			if !perm {
				ok := true
				for i := range items {
					if !c10Rel(items[i], d.Kids[i], pure, rn, perm) {
						ok = false
						break
					}
				}
				if ok {
					return true
				}
				continue
			}
			used := make([]bool, len(d.Kids))
			var match func(i int) bool
			match = func(i int) bool {
				if i == len(items) {
					return true
				}
				for j := range d.Kids {
					if !used[j] && c10Rel(items[i], d.Kids[j], pure, rn, perm) {
						used[j] = true
						if match(i + 1) {
							return true
						}
						used[j] = false
					}
				}
				return false
			}
			if match(0) {
				return true
			}
		}
		return false
	}
	if len(t.Kids) != len(d.Kids) {
		return false
	}
	for i := range t.Kids {
		if !c10Rel(t.Kids[i], d.Kids[i], pure, rn, perm) {
			return false
		}
	}
	return true
}

func c10(r *rep.Run) {
	max := 6
	r.SetBudget(300e9)
	if r.Thorough() {
		max = 7
		r.SetBudget(1800e9)
	}
	r.Rule = "every program up to the node bound over {int/bool constants, an ill-typed constant, one variable per leaf, + / = and or not if, s1/m1 (registered and declared stateless), a1/o1/u1 (registered, undeclared, stateful: result depends on their call ordinal; names sorting before/between/after the declared ones), boom} x 16 optimisation subsets; per program: Compile, then 3 evaluations under every binding. Oracles: no undeclared operator runs during Compile and declared ones only with a nil context; Compile never fails; under every subset the tree Dump shows is related to the source by the permitted rewrites only (fold a variable-free, all-stateless, successfully evaluating sub-tree; replace an and/or that has a deciding constant operand; flatten/permute and-or operands when those options are on; nothing at all when ConstantFolding is off) — so a failing constant sub-expression can never be folded away or turned into a compile error; every evaluation equals reference evaluation (R1) of that tree with the stateful operators' current ordinals, and the call ordinals agree afterwards — so a baked-in result, a skipped call or an extra call is visible. plus declaration histories: a base stateless list of 0..3 names with spare capacity 0..2 x two configs derived from it (same object / CopyConfig / NewConfig(ExtendConf)) x one name appended to each in either order; each derived config invokes at compile time only what its own owner declared. non-trivial = programs containing a variable-free operator application"
	r.Assume = []string{"small-scope hypothesis on tree size", "the optimizer relation is checked for the ConstantFolding-only and ConstantFolding+FastEvaluation subsets; other subsets are judged behaviourally"}
	r.Cov["bounds"] = map[string]int{"max_nodes": max}
	progs := Programs(c10Alphabet(), []term.Ty{B, I}, max)
	r.Cov["programs"] = len(progs)
	var compileCalls, folded int64
	done := r.ParallelFor(len(progs), func(w, i int) {
		p := progs[i]
		r.Note(w, p.Src)
		hasConstApp := false
		p.T.Walk(func(n *term.Term) {
			if n.K == term.KOp {
				vf := true
				n.Walk(func(x *term.Term) {
					if x.K == term.KVar {
						vf = false
					}
				})
				if vf {
					hasConstApp = true
				}
			}
		})
		illBool := false
		p.T.Walk(func(n *term.Term) {
			if n.K == term.KConst && n.Ty == B {
				if _, isB := n.Val.(bool); !isB {
					illBool = true
				}
			}
		})
		var nb, tr, ex int64
		for b := 0; b < 16; b++ {
			o := drive.FromBits(b)
			// fresh harness state per compilation: engine-side and model-side ordinals
			es := &c10state{ord: map[string]int64{}}
			h := drive.NewHarness()
			for name, fn := range es.fns() {
				h.Register(name, fn)
			}
			// operators registered under builtin names: the builtin always wins, so these never run
			for _, bn := range []string{"+", "/", "=", "and", "or", "not"} {
				h.Register(bn, func([]interface{}) (interface{}, error) { return int64(424242), nil })
			}
			cfg := h.NewConfig(p.Vars, o)
			cfg.StatelessOperators = []string{"s1", "m1"}
			e, err := h.Compile(cfg, p.Src, 0)
			d := func(extra map[string]interface{}) map[string]interface{} {
				return caseDesc(p.Src, o, nil, nil, nil, extra)
			}
			if err != nil {
				r.Violate("compile-fails", p.Src+o.String(), sprintf("Compile fails on a well-formed source (a failing constant sub-expression must be deferred to Eval): %v", err), d(nil))
				continue
			}
			for name, n := range h.CompileCalls {
				atomic.AddInt64(&compileCalls, int64(n))
				if !c10Stateless[name] {
					r.Violate("undeclared-op-at-compile-time", name+o.String(), sprintf("operator %s is not declared stateless but Compile invoked it %d time(s)", name, n), d(nil))
				}
			}
			for name, n := range h.SawNilCtx {
				if !c10Stateless[name] {
					r.Violate("undeclared-op-at-compile-time", name+o.String(), sprintf("operator %s saw a nil context %d time(s)", name, n), d(nil))
				}
			}
			// the optimised tree and the relation R6
			dt, text, derr := dumpTree(e)
			if derr != nil {
				r.Violate("dump-unreadable", p.Src, sprintf("Dump cannot be read back: %v", derr), d(map[string]interface{}{"dump": text}))
				continue
			}
			{
				if b == 1 && !term.Equal(dt, p.T) {
					atomic.AddInt64(&folded, 1)
				}
				pure := (&c10state{ord: map[string]int64{}}).fns()
				src, dst := p.T, dt
				if !o.CF {
					// without folding nothing may be replaced by a constant at all
					if !c10Rel(src, dst, map[string]ref.CustomFn{}, o.RN, o.RO) || countConsts(src) != countConsts(dst) {
						r.Violate("illegal-rewrite", p.Src+o.String(), "ConstantFolding is off but the compiled tree differs from the source by more than flattening/reordering", d(map[string]interface{}{"dump": dt.Src()}))
					}
				} else if !c10Rel(src, dst, pure, o.RN, o.RO) {
					r.Violate("illegal-rewrite", p.Src+o.String(), "the optimised tree is not obtainable from the source by folding pure constant sub-trees / and-or with a deciding constant (plus flattening/reordering when enabled)", d(map[string]interface{}{"dump": dt.Src()}))
				}
			}
			shadowRan := func(when string) bool {
				for _, e := range h.Trace {
					if !e.Get && ref.IsBuiltin(e.Name) {
						r.Violate("shadowed-builtin-ran", e.Name+o.String(), sprintf("an operator registered under the builtin name %s was invoked %s", e.Name, when), d(nil))
						return true
					}
				}
				return false
			}
			if shadowRan("during Compile") {
				continue
			}
			f := drive.NewFetcher(h, p.Vars, o)
			ms := &c10state{ord: map[string]int64{}} // the model's ordinals
			mfns := ms.fns()
			vals := make([]interface{}, len(p.Vars))
			drive.ForBindings(Doms(p.Vars, false), vals, func() bool {
				nb++
				if nb%512 == 0 {
					r.Note(w, p.Src) // progress within one program (many bindings)
				}
				for round := 0; round < 3; round++ {
					env1 := &ref.Env{Vals: map[string]interface{}{}, Custom: mfns}
					for k, v := range p.Vars {
						env1.Vals[v.Name] = vals[k]
					}
					r1v, r1e := env1.Eval(dt)
					copy(f.Vals, vals)
					h.Reset()
					got := h.Eval(e, f)
					ex++
					tr += int64(len(h.Trace)) + 1
					dd := func() map[string]interface{} {
						return caseDesc(p.Src, o, p.Vars, vals, nil, map[string]interface{}{"evaluation_round": round + 1, "got": got.String(), "optimised_tree": dt.Src(), "engine_trace": traceStr(h.Trace), "reference_trace": traceStr(env1.Trace)})
					}
					if got.Panic != nil {
						r.Violate("panic", p.Src+o.String(), sprintf("Eval panics: %v", got.Panic), dd())
						return false
					}
					want := refOut(r1v, r1e)
					if illBool {
						// a non-boolean operand under and/or/not/if: what evaluation
						// yields there is C18's open finding; only the compile-time
						// oracles (relation, purity) apply to these programs
						return true
					}
					if !drive.SameOutcome(got, want) {
						r.Violate("evaluation", p.Src+o.String(), sprintf("evaluation #%d returns %s, reference evaluation of the optimised tree with the operators' current state gives %s (a baked-in result, a lost or spurious failure)", round+1, got, want), dd())
						return false
					}
					if !sameOrd(ms.ord, es.ord) {
						r.Violate("call-count", p.Src+o.String(), sprintf("after evaluation #%d the undeclared operators have been called %v times, reference evaluation calls them %v times", round+1, es.ord, ms.ord), dd())
						return false
					}
				}
				return true
			})
		}
		r.Add(nb, tr, ex, ex, boolInt(hasConstApp))
		if i%2999 == 0 {
			r.Sample(12, map[string]interface{}{"program": p.Src})
		}
	})
	c10Declarations(r)
	c10ConstantCalls(r)
	r.Cov["programs_completed"] = done
	r.Cov["declared_stateless_calls_during_compile"] = compileCalls
	r.Cov["programs_changed_by_folding(CF,CF+FE)"] = folded
	r.Finish()
}

func sameOrd(a, b map[string]int64) bool {
	for _, k := range []string{"a1", "o1", "u1", "b2"} {
		if a[k] != b[k] {
			return false
		}
	}
	return true
}

func countConsts(t *term.Term) int {
	n := 0
	t.Walk(func(x *term.Term) {
		if x.K == term.KConst {
			n++
		}
	})
	return n
}

// stateful: does t mention an operator whose result depends on call order?
func stateful(t *term.Term) bool {
	s := false
	t.Walk(func(n *term.Term) {
		if n.K == term.KOp && (n.Name == "a1" || n.Name == "o1" || n.Name == "u1" || n.Name == "b2") {
			s = true
		}
	})
	return s
}

var _ = eval.Dump

// c10Declarations: WHICH operators a config lists as stateless, when the list
// was built through the configuration API: a base list (0..3 names, spare
// capacity 0..2) x two configs derived from it (the same object, CopyConfig,
// NewConfig(ExtendConf)) x one name appended to each derived list in either
// order. Each derived config then compiles a program that applies every
// registered operator to constants: exactly the operators its OWN owner
// declared run during Compile, and the others run at every evaluation.
func c10Declarations(r *rep.Run) {
	ops := []string{"s1", "m1", "a1", "o1"}
	derive := []struct {
		name string
		do   func(c *eval.Config) *eval.Config
	}{
		{"same object", func(c *eval.Config) *eval.Config { return c }},
		{"CopyConfig", func(c *eval.Config) *eval.Config { return eval.CopyConfig(c) }},
		{"NewConfig(ExtendConf)", func(c *eval.Config) *eval.Config { return eval.NewConfig(eval.ExtendConf(c)) }},
	}
	src := "(+ (s1 1) (m1 2) (a1 3) (o1 4))"
	var histories int64
	for baseLen := 0; baseLen <= 3; baseLen++ {
		for spare := 0; spare <= 2; spare++ {
			for da := range derive {
				for db := range derive {
					for xa := -1; xa < len(ops); xa++ {
						for xb := -1; xb < len(ops); xb++ {
							for order := 0; order < 2; order++ {
								h := drive.NewHarness()
								st := &c10state{ord: map[string]int64{}}
								for name, fn := range st.fns() {
									h.Register(name, fn)
								}
								base := h.NewConfig(nil, drive.Opt{CF: true})
								base.StatelessOperators = make([]string, 0, baseLen+spare)
								declared := [2]map[string]bool{{}, {}}
								for i := 0; i < baseLen; i++ {
									base.StatelessOperators = append(base.StatelessOperators, ops[i])
									declared[0][ops[i]], declared[1][ops[i]] = true, true
								}
								cfgs := [2]*eval.Config{derive[da].do(base), derive[db].do(base)}
								shared := cfgs[0] == cfgs[1]
								app := func(k, x int) {
									if x < 0 {
										return
									}
									cfgs[k].StatelessOperators = append(cfgs[k].StatelessOperators, ops[x])
									declared[k][ops[x]] = true
									if shared {
										declared[1-k][ops[x]] = true
									}
								}
								if order == 0 {
									app(0, xa)
									app(1, xb)
								} else {
									app(1, xb)
									app(0, xa)
								}
								histories++
								for k := 0; k < 2; k++ {
									h.CompileCalls = map[string]int{}
									e, err := h.Compile(cfgs[k], src, 0)
									d := map[string]interface{}{"source": src, "base_list_len": baseLen, "base_list_spare_capacity": spare,
										"derived_by": []string{derive[da].name, derive[db].name}, "appended": []int{xa, xb}, "append_order": order, "compiling_config": k}
									if err != nil {
										r.Violate("compile-fails", "decl", sprintf("Compile fails: %v", err), d)
										continue
									}
									for _, name := range ops {
										ran := h.CompileCalls[name] > 0
										if ran && !declared[k][name] {
											r.Violate("undeclared-op-at-compile-time", "decl"+name, sprintf("operator %s was never declared stateless by the owner of this config (list built through %s + append) but Compile invoked it", name, derive[[2]int{da, db}[k]].name), d)
										}
									}
									// every operator this owner did not declare runs at each evaluation
									for round := 0; round < 2; round++ {
										h.Reset()
										h.Eval(e, drive.NewFetcher(h, nil, drive.Opt{}))
										seen := map[string]bool{}
										for _, ev := range h.Trace {
											seen[ev.Name] = true
										}
										for _, name := range ops {
											if !declared[k][name] && !seen[name] {
												r.Violate("evaluation", "decl"+name, sprintf("operator %s is not declared stateless in this config but evaluation #%d does not call it (its result was baked in)", name, round+1), d)
											}
										}
									}
								}
							}
						}
					}
				}
			}
		}
	}
	r.Cov["declaration_histories"] = histories
}

// c10ConstantCalls: every builtin name and alias applied to every tuple of
// CONSTANT operands (arity 0..3 over a mixed-type alphabet: wrong counts,
// wrong types, zero divisors, bad version/date texts among them), bare and in
// either branch of an `if` whose condition is a variable, under all 16
// optimisation subsets. Whatever the call does, Compile must succeed; the
// failure (or value) the reference assigns to the call appears when and only
// when the call is reached.
func c10ConstantCalls(r *rep.Run) {
	all := sweepOperands()
	small := []*term.Term{term.Const(1), term.Const(0), term.Const(true), term.Const("a")}
	// arity 3: also list constants (equal lists in several positions)
	mid := append(append([]*term.Term{}, small...), term.Const([]int64{1, 2}), term.Const([]string{"a"}))
	type job struct {
		name string
		args []*term.Term
	}
	var jobs []job
	var rec func(name string, cur []*term.Term, ar int, ops []*term.Term)
	rec = func(name string, cur []*term.Term, ar int, ops []*term.Term) {
		if len(cur) == ar {
			jobs = append(jobs, job{name, append([]*term.Term(nil), cur...)})
			return
		}
		for _, o := range ops {
			rec(name, append(cur, o), ar, ops)
		}
	}
	for _, n := range sweepNames {
		if n == "if" || term.IsAnd(n) || term.IsOr(n) {
			continue // and/or over ill-typed constants is C18's open finding; if with a wrong count is a syntax error
		}
		for ar := 0; ar <= 3; ar++ {
			ops := all
			if ar == 3 && !r.Thorough() {
				ops = mid
			}
			rec(n, nil, ar, ops)
		}
		rec(n, nil, 4, small)
	}
	hs := harnesses(r.Workers)
	vars := []term.VarDecl{{Name: "c", Ty: B}}
	var compiles, evals, failing int64
	r.ParallelFor(len(jobs), func(w, i int) {
		j := jobs[i]
		h := hs[w]
		core := term.Op(j.name, term.TX, j.args...)
		cv, cerr := envFor(nil, nil).Eval(core)
		// where the reference does not define the call's outcome (equality of
		// lists) only the compile-time oracles and "no panic" apply
		undefined := cerr == ref.ErrUndefined
		if cerr != nil {
			atomic.AddInt64(&failing, 1)
		}
		r.Note(w, core.Src())
		ctxs := []*term.Term{core, term.If(term.Var("c", B), core, term.Const(7)), term.If(term.Var("c", B), term.Const(7), core)}
		for ci, t := range ctxs {
			src := t.Src()
			for b := 0; b < 16; b++ {
				o := drive.FromBits(b)
				cfg := h.NewConfig(vars, o)
				e, err := h.Compile(cfg, src, 0)
				atomic.AddInt64(&compiles, 1)
				d := caseDesc(src, o, nil, nil, nil, nil)
				if err != nil {
					r.Violate("compile-fails", "call"+j.name+o.String(), sprintf("Compile fails on %s under %s (whatever a call over constants does is deferred to Eval, and only if it is reached): %v", src, o, err), d)
					continue
				}
				for _, cval := range []bool{false, true} {
					if ci == 0 && cval {
						continue
					}
					f := drive.NewFetcher(h, vars, o)
					f.Vals[0] = cval
					h.Reset()
					got := h.Eval(e, f)
					atomic.AddInt64(&evals, 1)
					want := refOut(cv, cerr)
					reached := true
					if (ci == 1 && !cval) || (ci == 2 && cval) {
						want = drive.Out{Val: int64(7)}
						reached = false
					}
					if got.Panic != nil {
						r.Violate("constant-call-panic", "call"+j.name+o.String(), sprintf("%s with c=%v under %s: Eval panics: %v (at %s)", src, cval, o, got.Panic, got.Site), d)
						continue
					}
					if undefined && reached {
						continue
					}
					if !drive.SameOutcome(got, want) {
						r.Violate("constant-call-outcome", "call"+j.name+o.String(), sprintf("%s with c=%v under %s: Eval=%s, the reference gives %s", src, cval, o, got, want), d)
					}
				}
			}
		}
		if i%4001 == 0 {
			r.Sample(8, map[string]interface{}{"constant_call": core.Src()})
		}
	})
	r.Cov["constant_call_tuples"] = len(jobs)
	r.Cov["constant_call_tuples_failing_at_run_time"] = failing
	r.Cov["constant_call_compilations"] = compiles
	r.Add(0, compiles+evals, evals, evals, failing)
}
