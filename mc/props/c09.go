package props

import (
	"fmt"
	"regexp"
	"strconv"
	"strings"
	"sync/atomic"
	"time"

	eval "github.com/onheap/eval"

	"verifmc/drive"
	"verifmc/ref"
	"verifmc/rep"
	"verifmc/term"
)

func init() { Registry["C09"] = c09 }

type c9case struct {
	name    string
	src     string
	nodes   int         // exact node count of the unoptimised program (0: unknown)
	want    interface{} // closed-form result
	maxOps  int         // largest operand count in the source (before flattening)
	flatOps int         // largest operand count after flattening (ReduceNesting)
}

func rep1(tok string, n int) string { return strings.TrimSpace(strings.Repeat(tok+" ", n)) }

var nodeSizeRe = regexp.MustCompile(`node  size:\s*(\d+)`)

func tableSize(e *eval.Expr) (size int, fast int) {
	t := eval.DumpTable(e, false)
	if m := nodeSizeRe.FindStringSubmatch(t); m != nil {
		size, _ = strconv.Atoi(m[1])
	}
	for _, l := range strings.Split(t, "\n") {
		if strings.HasPrefix(strings.TrimSpace(l), "flag:") {
			fast = strings.Count(l, "OPf")
		}
	}
	return
}

// c9Wide builds a program with exactly n nodes: root vsum over groups of
// (+ x ... x); leaves are the variable x (so nothing folds). Returns the
// source and the number of leaves (the closed-form sum for x=1).
func c9Wide(n int) (string, int) {
	// root(1) + groups; a full group has 1+126 nodes.
	var groups []string
	leaves := 0
	remain := n - 1
	for remain > 0 {
		g := 127
		if remain < g {
			g = remain
		}
		if g == 1 {
			groups = append(groups, "x")
			leaves++
		} else if g == 2 {
			groups = append(groups, "x", "x")
			leaves += 2
		} else {
			groups = append(groups, "(+ "+rep1("x", g-1)+")")
			leaves += g - 1
		}
		remain -= g
	}
	// root operand limit is 127: nest roots when necessary
	for len(groups) > 127 {
		panic("c9Wide: too many groups; use c9Tree")
	}
	return "(vsum " + strings.Join(groups, " ") + ")", leaves
}

// c9Tree builds an exactly-n-node program as a 3-level tree of vsum / + so
// that no operator exceeds 127 operands.
func c9Tree(n int) (string, int) {
	// level-2 blocks of up to 100 groups of (+ x*100) = 1 + 100*101 = 10101 nodes
	leaves := 0
	remain := n - 1
	var blocks []string
	for remain > 0 {
		bsz := remain
		if bsz > 10101 {
			bsz = 10101
		}
		if bsz < 3 {
			blocks = append(blocks, strings.Fields(rep1("x", bsz))...)
			leaves += bsz
			remain -= bsz
			continue
		}
		// block: (vsum groups...) with bsz nodes
		in := bsz - 1
		var groups []string
		for in > 0 {
			g := 101
			if in < g {
				g = in
			}
			if g <= 2 {
				groups = append(groups, strings.Fields(rep1("x", g))...)
				leaves += g
			} else {
				groups = append(groups, "(+ "+rep1("x", g-1)+")")
				leaves += g - 1
			}
			in -= g
		}
		blocks = append(blocks, "(vsum "+strings.Join(groups, " ")+")")
		remain -= bsz
	}
	return "(vsum " + strings.Join(blocks, " ") + ")", leaves
}

// c9Deep builds an exactly-n-node program: a right-nested chain
// (+ x (+ x (+ x ... (+ x x)))) of depth d (2d+1 nodes) padded by a wide
// sibling tree. The live stack depth equals the chain depth.
func c9Deep(n, d int) (string, int) {
	chain := "x"
	for i := 0; i < d; i++ {
		chain = "(+ x " + chain + ")"
	}
	chainNodes := 2*d + 1
	pad, padLeaves := c9Tree(n - 1 - chainNodes)
	return "(vsum " + pad + " " + chain + ")", padLeaves + d + 1
}

// c9Stack builds a program whose evaluation has `depth` operands pending at
// its deepest point: nested sums, each level holding up to 126 variable
// operands before the nested sum: (+ x*126 (+ x*126 ( ... (+ x x)))).
// Returns the source, the number of leaves (= the value when x = 1) and the
// node count.
func c9Stack(depth int) (string, int, int) {
	// innermost level: two leaves => 2 pending at the very bottom
	src := "(+ x x)"
	pending, leaves, nodes := 2, 2, 3
	for pending < depth {
		w := depth - pending
		if w > 126 {
			w = 126
		}
		src = "(+ " + rep1("x", w) + " " + src + ")"
		pending += w
		leaves += w
		nodes += w + 1
	}
	return src, leaves, nodes
}

// c9Pairs builds an exactly-n-node program made almost entirely of two-leaf
// operators (+ x x) — fast operators under FastEvaluation, whose operands get
// no event node — grouped under vsum nodes of at most 100 operands.
func c9Pairs(n int) (string, int) {
	leaves := 0
	remain := n - 1
	var blocks []string
	for remain > 0 {
		// a block (vsum pair*k [x]*r) has 1 + 3k + r nodes
		bsz := remain
		if bsz > 301 {
			bsz = 301
		}
		if bsz < 4 {
			blocks = append(blocks, strings.Fields(rep1("x", bsz))...)
			leaves += bsz
			remain -= bsz
			continue
		}
		in := bsz - 1
		k, r := in/3, in%3
		items := make([]string, 0, k+r)
		for i := 0; i < k; i++ {
			items = append(items, "(+ x x)")
		}
		for i := 0; i < r; i++ {
			items = append(items, "x")
		}
		leaves += 2*k + r
		blocks = append(blocks, "(vsum "+strings.Join(items, " ")+")")
		remain -= bsz
	}
	// at most 127 blocks per level
	for len(blocks) > 120 {
		var up []string
		for i := 0; i < len(blocks); i += 100 {
			j := i + 100
			if j > len(blocks) {
				j = len(blocks)
			}
			up = append(up, "(vsum "+strings.Join(blocks[i:j], " ")+")")
		}
		blocks = up
	}
	return "(vsum " + strings.Join(blocks, " ") + ")", leaves
}

// c9Ifs builds a program of about n nodes made of (if t x x) items (5 program
// slots each: condition, if, branch, fi, branch) under vsum groups; the exact
// slot count is read from DumpTable.
func c9Ifs(n int) (string, int) {
	leaves := 0
	remain := n - 1
	var blocks []string
	for remain > 0 {
		bsz := remain
		if bsz > 501 {
			bsz = 501
		}
		if bsz < 6 {
			blocks = append(blocks, strings.Fields(rep1("x", bsz))...)
			leaves += bsz
			remain -= bsz
			continue
		}
		in := bsz - 1
		k, r := in/5, in%5
		items := make([]string, 0, k+r)
		for i := 0; i < k; i++ {
			items = append(items, "(if t x x)")
		}
		for i := 0; i < r; i++ {
			items = append(items, "x")
		}
		leaves += k + r
		blocks = append(blocks, "(vsum "+strings.Join(items, " ")+")")
		remain -= bsz
	}
	return "(vsum " + strings.Join(blocks, " ") + ")", leaves
}

type c9fetch struct{ x eval.Value }

func (f c9fetch) Get(_ eval.VariableKey, s string) (eval.Value, error) {
	if s == "t" {
		return true, nil
	}
	return f.x, nil
}
func (f c9fetch) Set(eval.VariableKey, string, eval.Value) error { return nil }
func (f c9fetch) Cached(eval.VariableKey, string) bool           { return true }

func c09(r *rep.Run) {
	r.SetBudget(300e9)
	if r.Thorough() {
		r.SetBudget(1800e9)
	}
	r.Rule = "parameterised families, every member: (1) operand counts 120..130 for every n-ary operator kind (+, *, and, or, eq, registered variadic), written flat and as two/three nested and/or groups that flatten to that count; (2) node counts 16370..16395 and 32755..32775 (every value) in three shapes with exact closed-form node counts (wide 2-level, 3-level tree, deep right-nested chain with stack depth 20/300/5000 + padding); (3) stack contexts: every CORE/RICH tree of <= 5 nodes as last operand of a variadic registered operator after d in {4..9, 12..18} constant operands, and nested one level deeper; (4) stack depths: nested 126-operand sums with 2^k-1, 2^k, 2^k+1 pending operands for k = 3..14 and up to 32500; all x 16 optimisation subsets x {events off, ReportEvent, Debug}; Eval and TryEval. Oracle: Compile returns an error OR evaluation gives the closed-form / R1 result — never a panic or a wrong value; up to the limits (<=127 operands after flattening, <=32767 program slots incl. event nodes, computed from DumpTable) it must be the value. non-trivial = members within +-3 of a limit"
	r.Assume = []string{"event-mode program size is 2*nodes - 2*(number of fast operators), read from the event-free DumpTable",
		"node-count families use one variable leaf (x=1) so that nothing is folded"}
	hs := harnesses(r.Workers)
	for _, h := range hs {
		for _, n := range []string{"last", "vsum", "t0", "i0"} {
			h.Register(n, ref.Customs[n])
		}
	}
	var cases, evals, near, rejected int64

	// ---- (1) operand counts ----
	type opjob struct {
		name   string
		src    string
		k      int // operand count after flattening
		kRaw   int // largest operand count as written
		want   interface{}
		boolOp bool
	}
	var ojobs []opjob
	for k := 118; k <= 131; k++ {
		ojobs = append(ojobs,
			opjob{"+ flat", "(+ " + rep1("x", k) + ")", k, k, int64(k), false},
			opjob{"* flat", "(* " + rep1("x", k) + ")", k, k, int64(1), false},
			opjob{"eq flat", "(eq " + rep1("x", k) + ")", k, k, true, false},
			opjob{"vsum flat", "(vsum " + rep1("x", k) + ")", k, k, int64(k), false},
			opjob{"and flat", "(and " + rep1("t", k-1) + " f)", k, k, false, true},
			opjob{"or flat", "(or " + rep1("f", k-1) + " t)", k, k, true, true},
			opjob{"&& flat all true", "(&& " + rep1("t", k) + ")", k, k, true, true},
			opjob{"xor flat last true", "(xor " + rep1("f", k-1) + " t)", k, k, true, false},
			opjob{"xor flat all true", "(xor " + rep1("t", k) + ")", k, k, k%2 == 1, false},
			opjob{"sub flat", "(- " + rep1("x", k) + ")", k, k, int64(2 - k), false},
		)
		// nested groups that flatten to k operands
		for _, a := range []int{2, 60, 100, 127} {
			if a >= k-1 {
				continue
			}
			b := k - a
			if b <= 127 {
				ojobs = append(ojobs, opjob{"and 2 groups", fmt.Sprintf("(and (and %s) (and %s f))", rep1("t", a), rep1("t", b-1)), k, max2(a, b), false, true})
				ojobs = append(ojobs, opjob{"or group+tail", fmt.Sprintf("(or (or %s) %s t)", rep1("f", a), rep1("f", b-1)), k, max2(a, b+1), true, true})
			}
			if b > 3 && b/2 <= 127 && b-b/2 <= 127 {
				ojobs = append(ojobs, opjob{"and 3 groups", fmt.Sprintf("(and (& %s) (and %s) (&& %s))", rep1("t", a), rep1("t", b/2), rep1("t", b-b/2)), k, max2(a, b-b/2), true, true})
			}
		}
	}
	// far beyond the limit (wrap-around of the int8 operand count)
	for _, k := range []int{200, 255, 256, 257, 258, 300, 383, 384, 512} {
		ojobs = append(ojobs, opjob{"+ flat far", "(+ " + rep1("x", k) + ")", k, k, int64(k), false})
		a := 127
		var groups []string
		left := k
		for left > 0 {
			g := a
			if left < g {
				g = left
			}
			if g == 1 {
				groups = append(groups, "t")
			} else {
				groups = append(groups, "(and "+rep1("t", g)+")")
			}
			left -= g
		}
		ojobs = append(ojobs, opjob{"and groups far", "(not (and " + strings.Join(groups, " ") + "))", k, 127, false, true})
	}
	evModes := []int{0, 1, 2, 3} // 3 = ReportEvent and Debug both set (instrumented once)
	r.ParallelFor(len(ojobs), func(w, i int) {
		j := ojobs[i]
		h := hs[w]
		r.Note(w, sprintf("%s k=%d", j.name, j.k))
		vars := []term.VarDecl{{Name: "x", Ty: I}, {Name: "t", Ty: B}, {Name: "f", Ty: B}}
		for b := 0; b < 16; b++ {
			r.Note(w, sprintf("%s k=%d optset %d", j.name, j.k, b))
			for _, ev := range evModes {
				o := drive.FromBits(b)
				o.Events = ev
				cfg := h.NewConfig(vars, o)
				e, err := h.Compile(cfg, j.src, 4096)
				atomic.AddInt64(&cases, 1)
				d := map[string]interface{}{"family": j.name, "operands_after_flattening": j.k, "operands_as_written": j.kRaw, "config": o.String(), "source_prefix": trunc(j.src, 120)}
				if pe, ok := err.(*drive.PanicErr); ok {
					r.Violate("compile-panic", j.name+pe.Site, sprintf("%s with %d operands: Compile panics under %s: %v", j.name, j.k, o, pe.V), d)
					continue
				}
				eff := j.kRaw
				if j.boolOp && o.RN {
					eff = j.k
				}
				if abs(eff-127) <= 3 {
					atomic.AddInt64(&near, 1)
				}
				if err != nil {
					atomic.AddInt64(&rejected, 1)
					if eff <= 127 {
						r.Violate("rejected-below-limit", j.name+o.String(), sprintf("%s with %d operands (<=127) is rejected under %s: %v", j.name, eff, o, err), d)
					}
					continue
				}
				if eff > 127 {
					// accepted above the limit: the statement demands rejection
					r.Violate("accepted-above-limit", j.name+o.String(), sprintf("%s with %d operands (>127 after flattening) is accepted by Compile under %s", j.name, eff, o), d)
				}
				f := drive.NewFetcher(h, vars, o)
				f.Vals[0], f.Vals[1], f.Vals[2] = int64(1), true, false
				for mode := 0; mode < 2; mode++ {
					h.Reset()
					var got drive.Out
					if mode == 0 {
						got = h.Eval(e, f)
					} else {
						got = h.TryEval(e, f)
					}
					atomic.AddInt64(&evals, 1)
					if !drive.SameOutcome(got, drive.Out{Val: j.want}) {
						r.Violate("wrong-value", j.name+o.String(), sprintf("%s with %d operands under %s: %s instead of %v", j.name, j.k, o, got, j.want), d)
					}
				}
			}
		}
		if i%37 == 0 {
			r.Sample(6, map[string]interface{}{"operand_family": j.name, "operands": j.k})
		}
	})

	// ---- (2) node counts ----
	type njob struct {
		shape string
		n     int
		depth int
	}
	var njobs []njob
	addRange := func(lo, hi int) {
		for n := lo; n <= hi; n++ {
			njobs = append(njobs, njob{"tree", n, 0})
			if n%2 == 0 || r.Thorough() {
				njobs = append(njobs, njob{"deep20", n, 20}, njob{"deep300", n, 300})
			}
			if n%5 == 0 {
				njobs = append(njobs, njob{"deep5000", n, 5000})
			}
		}
	}
	addRange(16370, 16395)
	addRange(32755, 32775)
	if r.Thorough() {
		addRange(8185, 8200)
		addRange(10915, 10930) // 32767/3
		addRange(21840, 21850)
		addRange(65530, 65540)
	}
	for n := 3; n <= 400; n += 7 {
		njobs = append(njobs, njob{"tree", n, 0})
	}
	// programs dominated by fast operators: the event-mode limit is reached at
	// about 24.6k nodes (2n - 2*fast crosses 32767); every n in a window there
	for n := 24540; n <= 24620; n++ {
		njobs = append(njobs, njob{"pairs", n, -1})
	}
	for n := 32755; n <= 32770; n++ {
		njobs = append(njobs, njob{"pairs", n, -1})
	}
	// programs full of `if`: every if costs 5 program slots and 10 in event mode
	for n := 16360; n <= 16400; n++ {
		njobs = append(njobs, njob{"ifs", n, -2})
	}
	for n := 32755; n <= 32770; n++ {
		njobs = append(njobs, njob{"ifs", n, -2})
	}
	optsN := []int{0, 15, 4, 2}
	if r.Thorough() {
		optsN = []int{0, 1, 2, 3, 4, 5, 6, 7, 8, 9, 10, 11, 12, 13, 14, 15}
	}
	r.ParallelFor(len(njobs), func(w, i int) {
		j := njobs[i]
		h := hs[w]
		r.Note(w, sprintf("%s n=%d", j.shape, j.n))
		var src string
		var leaves int
		if j.depth > 0 && j.n < 2*j.depth+8 {
			return // the chain alone needs more nodes than this member has
		}
		if j.depth == -2 {
			src, leaves = c9Ifs(j.n)
		} else if j.depth == -1 {
			src, leaves = c9Pairs(j.n)
		} else if j.depth == 0 {
			src, leaves = c9Tree(j.n)
		} else {
			src, leaves = c9Deep(j.n, j.depth)
		}
		vars := []term.VarDecl{{Name: "x", Ty: I}, {Name: "t", Ty: B}}
		for _, b := range optsN {
			r.Note(w, sprintf("%s n=%d optset %d", j.shape, j.n, b))
			// event-free compile first: gives the real node and fast-operator counts
			o := drive.FromBits(b)
			cfg := h.NewConfig(vars, o)
			e0, err0 := h.Compile(cfg, src, 0)
			size, fast := 0, 0
			if err0 == nil {
				size, fast = tableSize(e0)
			}
			for _, ev := range evModes {
				o.Events = ev
				d := map[string]interface{}{"shape": j.shape, "nodes": j.n, "config": o.String(), "stack_depth": j.depth}
				var e *eval.Expr
				var err error
				if ev == 0 {
					e, err = e0, err0
				} else {
					cfg := h.NewConfig(vars, o)
					e, err = h.Compile(cfg, src, 70000)
				}
				atomic.AddInt64(&cases, 1)
				if pe, ok := err.(*drive.PanicErr); ok {
					r.Violate("compile-panic", "nodes"+pe.Site, sprintf("%s program of %d nodes: Compile panics under %s: %v (at %s)", j.shape, j.n, o, pe.V, pe.Site), d)
					continue
				}
				limitSize := j.n
				known := true // do we know the exact slot count?
				if ev != 0 && err0 == nil && size > 0 {
					limitSize = 2*size - 2*fast
				} else if ev != 0 {
					limitSize = 2 * j.n
					known = err0 != nil // event-free compile failed: 2n is an upper bound only
					if size == 0 && err0 == nil {
						known = false // DumpTable could not be read: do not guess
					}
				}
				if abs(limitSize-32767) <= 6 {
					atomic.AddInt64(&near, 1)
				}
				if err != nil {
					atomic.AddInt64(&rejected, 1)
					if limitSize <= 32767 && j.n <= 32767 && (known || ev == 0) {
						r.Violate("rejected-below-limit", "nodes"+o.String(), sprintf("%s program of %d nodes (%d program slots) is rejected under %s: %v", j.shape, j.n, limitSize, o, err), d)
					}
					continue
				}
				if ev == 0 && size != j.n && b == 0 && j.depth >= 0 {
					r.Violate("harness-node-count", "c9", sprintf("harness family %s claims %d nodes but DumpTable says %d", j.shape, j.n, size), d)
				}
				if limitSize > 32767 && (known || ev == 0) {
					r.Violate("accepted-above-limit", "nodes"+o.String(), sprintf("%s program needing %d program slots (>32767) is accepted by Compile under %s", j.shape, limitSize, o), d)
				}
				if ev != 0 {
					if sz, _ := tableSize(e); sz != limitSize && err0 == nil && known && sz > 0 {
						r.Violate("event-size", "nodes"+o.String(), sprintf("event-mode program has %d slots, expected %d", sz, limitSize), d)
					}
				}
				for mode := 0; mode < 2; mode++ {
					h.Reset()
					var got drive.Out
					if mode == 0 {
						got = h.Eval(e, c9fetch{int64(1)})
					} else {
						got = h.TryEval(e, c9fetch{int64(1)})
					}
					atomic.AddInt64(&evals, 1)
					if !drive.SameOutcome(got, drive.Out{Val: int64(leaves)}) {
						r.Violate("wrong-value", "nodes"+o.String(), sprintf("%s program of %d nodes under %s: %s instead of %d", j.shape, j.n, o, got, leaves), d)
					}
				}
			}
		}
		if i%41 == 0 {
			r.Sample(12, map[string]interface{}{"node_family": j.shape, "nodes": j.n})
		}
	})

	// ---- (4) stack depths: every size class boundary of the operand stack ----
	{
		var depths []int
		for k := 3; k <= 14; k++ {
			depths = append(depths, 1<<k-1, 1<<k, 1<<k+1)
		}
		depths = append(depths, 12000, 20000, 24576, 24577, 30000, 32000, 32400, 32500)
		if r.Thorough() {
			for dd := 16380; dd <= 16390; dd++ {
				depths = append(depths, dd)
			}
			for dd := 32400; dd <= 32520; dd += 10 {
				depths = append(depths, dd)
			}
		}
		var stackRuns int64
		r.ParallelFor(len(depths), func(w, i int) {
			depth := depths[i]
			h := hs[w]
			src, leaves, nodes := c9Stack(depth)
			vars := []term.VarDecl{{Name: "x", Ty: I}}
			for _, b := range optsN {
				for _, ev := range evModes {
					r.Note(w, sprintf("stack depth %d optset %d events %d", depth, b, ev))
					o := drive.FromBits(b)
					o.Events = ev
					e, err := h.Compile(h.NewConfig(vars, o), src, 70000)
					atomic.AddInt64(&cases, 1)
					d := map[string]interface{}{"shape": "nested 126-operand sums", "stack_depth": depth, "nodes": nodes, "config": o.String()}
					if pe, ok := err.(*drive.PanicErr); ok {
						r.Violate("compile-panic", "stack"+pe.Site, sprintf("program with %d pending operands: Compile panics under %s: %v (at %s)", depth, o, pe.V, pe.Site), d)
						continue
					}
					if err != nil {
						atomic.AddInt64(&rejected, 1)
						if ev == 0 && nodes <= 32767 {
							r.Violate("rejected-below-limit", "stack"+o.String(), sprintf("program of %d nodes (<= 32767) with %d pending operands is rejected under %s: %v", nodes, depth, o, err), d)
						}
						continue
					}
					if nodes > 32767 {
						r.Violate("accepted-above-limit", "stack"+o.String(), sprintf("program of %d nodes (> 32767) with %d pending operands is accepted by Compile under %s", nodes, depth, o), d)
						continue
					}
					for mode := 0; mode < 2; mode++ {
						h.Reset()
						var got drive.Out
						if mode == 0 {
							got = h.Eval(e, c9fetch{int64(1)})
						} else {
							got = h.TryEval(e, c9fetch{int64(1)})
						}
						atomic.AddInt64(&evals, 1)
						atomic.AddInt64(&stackRuns, 1)
						if !drive.SameOutcome(got, drive.Out{Val: int64(leaves)}) {
							r.Violate("wrong-value", "stack"+o.String(), sprintf("program with %d pending operands under %s (%s): %s instead of %d", depth, o, []string{"Eval", "TryEval"}[mode], got, leaves), d)
						}
					}
				}
			}
		})
		r.Cov["stack_depth_members"] = len(depths)
		r.Cov["stack_depth_executions"] = stackRuns
	}

	// ---- (4a) the limits count NODES, not tokens or characters ----
	// a list literal is one node however many elements it has, redundant
	// parentheses in infix notation add no node: programs of 3..5 nodes written
	// with up to 200 000 tokens compile and evaluate
	{
		type tj struct {
			name, src string
			infix     bool
			x         interface{}
			want      interface{}
		}
		var tjs []tj
		for _, n := range []int{127, 128, 32767, 32768, 65535, 65536, 98301, 98302, 120000, 200000} {
			var sb strings.Builder
			for i := 0; i < n; i++ {
				sb.WriteString(strconv.Itoa(1000+i) + " ")
			}
			lst := strings.TrimSpace(sb.String())
			tjs = append(tjs,
				tj{sprintf("in over a %d-element literal (member)", n), "(in x (" + lst + "))", false, int64(1000 + n - 1), true},
				tj{sprintf("in over a %d-element literal (non-member)", n), "(not (in x (" + lst + ")))", false, int64(5), true})
		}
		// few nodes, many BYTES: one long string literal, one long identifier, one
		// long comment in the body (lengths around 4 KiB, 64 KiB and 1 MiB)
		for _, n := range []int{4095, 4097, 65535, 65536, 65537, 1 << 20} {
			long := strings.Repeat("ab", n/2+1)[:n]
			tjs = append(tjs,
				tj{sprintf("comparison with a %d-byte string literal", n), "(= x \"" + long + "\")", false, long, true},
				tj{sprintf("a %d-byte string literal in a list", n), "(in x (\"q\" \"" + long + "\"))", false, long, true},
				tj{sprintf("a %d-byte comment inside the expression", n), "(= x ;" + long + "\n 7)", false, int64(7), true})
			if n <= 65537 {
				tjs = append(tjs, tj{sprintf("a %d-byte variable name", n), "(= v" + long + " 7)", false, int64(7), true})
			}
		}
		for _, k := range []int{100, 20000, 33000, 60000} {
			tjs = append(tjs, tj{sprintf("infix sum inside %d redundant parentheses", k), strings.Repeat("(", k) + "x + 1" + strings.Repeat(")", k) + " * 2", true, int64(20), int64(42)})
		}
		var tokRuns int64
		r.ParallelFor(len(tjs), func(w, i int) {
			j := tjs[i]
			h := hs[w]
			r.Note(w, j.name)
			for _, b := range []int{0, 15} {
				o := drive.FromBits(b)
				o.Infix = j.infix
				d := map[string]interface{}{"family": j.name, "config": o.String(), "source_prefix": trunc(j.src, 80), "source_length": len(j.src)}
				tvars := []term.VarDecl{{Name: "x", Ty: I}}
				if strings.HasPrefix(j.src, "(= v") { // the long-identifier member: its variable is registered too
					tvars = append(tvars, term.VarDecl{Name: strings.Fields(j.src)[1], Ty: I})
				}
				e, err := h.Compile(h.NewConfig(tvars, o), j.src, 0)
				atomic.AddInt64(&cases, 1)
				if pe, ok := err.(*drive.PanicErr); ok {
					r.Violate("compile-panic", "tokens"+pe.Site, sprintf("%s: Compile panics under %s: %v (at %s)", j.name, o, pe.V, pe.Site), d)
					continue
				}
				if err != nil {
					r.Violate("rejected-below-limit", "tokens"+o.String(), sprintf("%s (a program of at most 5 nodes) is rejected under %s: %v", j.name, o, err), d)
					continue
				}
				for mode := 0; mode < 2; mode++ {
					h.Reset()
					var got drive.Out
					if mode == 0 {
						got = h.Eval(e, c9fetch{j.x})
					} else {
						got = h.TryEval(e, c9fetch{j.x})
					}
					atomic.AddInt64(&tokRuns, 1)
					if !drive.SameOutcome(got, drive.Out{Val: j.want}) {
						r.Violate("wrong-value", "tokens"+o.String(), sprintf("%s under %s: %s instead of %v", j.name, o, got, j.want), d)
					}
				}
			}
		})
		evals += tokRuns
		r.Cov["few_nodes_many_tokens_members"] = len(tjs)
	}

	// ---- (4b) one caller context across programs of different stack classes ----
	// A caller may evaluate any number of programs with one Ctx; the operand
	// stack each evaluation gets must fit THAT program whatever ran before on
	// the same context. Every ordered pair (thorough: triple) of stack depths
	// around the allocation classes x {Eval, TryEval} per step.
	{
		ds := []int{2, 3, 7, 8, 9, 10, 15, 16, 17, 18, 31, 33, 127, 129, 300}
		type sp struct {
			e      *eval.Expr
			leaves int
			depth  int
			o      drive.Opt
		}
		var progs []sp
		h := hs[0]
		for _, b := range []int{0, 15} {
			for _, d := range ds {
				src, leaves, _ := c9Stack(d)
				o := drive.FromBits(b)
				e, err := h.Compile(h.NewConfig([]term.VarDecl{{Name: "x", Ty: I}}, o), src, 0)
				if err != nil {
					r.Violate("rejected-below-limit", "ctxseq"+o.String(), sprintf("program with %d pending operands is rejected under %s: %v", d, o, err), map[string]interface{}{"source": src})
					continue
				}
				progs = append(progs, sp{e, leaves, d, o})
			}
		}
		var seqRuns int64
		steps := 2
		if r.Thorough() {
			steps = 3
		}
		total := 1
		for s := 0; s < steps; s++ {
			total *= len(progs) * 2
		}
		r.ParallelFor(total, func(w, i int) {
			if i%4096 == 0 {
				r.Note(w, sprintf("context sequence %d", i))
			}
			ctx := &eval.Ctx{VariableFetcher: c9fetch{int64(1)}}
			var hist []string
			for s, k := 0, i; s < steps; s++ {
				c := k % (len(progs) * 2)
				k /= len(progs) * 2
				p, mode := progs[c/2], c%2
				hist = append(hist, sprintf("%s(depth %d, %s)", []string{"Eval", "TryEval"}[mode], p.depth, p.o))
				var v eval.Value
				var err error
				pn, site := drive.Fence(func() {
					if mode == 0 {
						v, err = p.e.Eval(ctx)
					} else {
						v, err = p.e.TryEval(ctx)
					}
				})
				atomic.AddInt64(&seqRuns, 1)
				d := map[string]interface{}{"calls_on_one_context": strings.Join(hist, " ; ")}
				if pn != nil {
					r.Violate("stack-panic", "ctxseq"+site, sprintf("evaluations sharing one Ctx: %s panics: %v (at %s)", strings.Join(hist, " ; "), pn, site), d)
					break
				}
				if err != nil || v != int64(p.leaves) {
					r.Violate("wrong-value", "ctxseq", sprintf("evaluations sharing one Ctx: %s returns %v, %v instead of %d", strings.Join(hist, " ; "), v, err, p.leaves), d)
					break
				}
			}
		})
		evals += seqRuns
		r.Cov["one_context_sequences"] = total
		r.Cov["one_context_sequence_executions"] = seqRuns
	}

	// ---- (3) stack contexts ----
	fmt.Printf("families done at %.1fs\n", time.Since(r.Start).Seconds())
	maxT := 4
	if r.Thorough() {
		maxT = 5
	}
	trees := Programs(Core(), []term.Ty{B}, maxT)
	trees = append(trees, Programs(Rich(), []term.Ty{B, I}, maxT)...)
	// zero-operand operators that succeed (they push without popping) alone and inside small trees
	zero := &term.Alphabet{
		Leaves: map[term.Ty][]*term.Term{B: {term.Var("b", B)}, I: {term.Const(1)}},
		Ops: []term.OpSig{sig("t0", B), sig("i0", I), sig("and", B, B, B), sig("not", B, B), sig("=", B, I, I), sig("+", I, I, I),
			{Name: "if", Args: []term.Ty{B, I, I}, Ret: I, If: true}, {Name: "if", Args: []term.Ty{B, B, B}, Ret: B, If: true}},
	}
	for _, p := range Programs(zero, []term.Ty{B, I}, maxT) {
		if strings.Contains(p.Src, "t0") || strings.Contains(p.Src, "i0") {
			trees = append(trees, p)
		}
	}
	// leaves as contexts' T too
	depths := []int{6, 7, 8, 9, 14, 15, 16, 17}
	if r.Thorough() {
		depths = []int{4, 5, 6, 7, 8, 9, 10, 12, 13, 14, 15, 16, 17, 18, 19}
	}
	opts := optMatrix(0, 1, 2)
	var ctxCases int64
	r.ParallelFor(len(trees), func(w, i int) {
		t := trees[i]
		h := hs[w]
		for _, d := range depths {
			for shape := 0; shape < 2; shape++ {
				var src string
				var full *term.Term
				pad := make([]*term.Term, d)
				for k := range pad {
					pad[k] = term.Const(int64(k))
				}
				// words the compiler uses internally as node markers, as ordinary data
				if i%3 == 1 {
					pad[d/3] = term.Const("fi")
					pad[d-1] = term.Const("if")
				} else if i%3 == 2 {
					pad[d-2] = term.Const("fi")
				}
				if shape == 0 {
					full = term.Op("last", t.T.Ty, append(pad, t.T)...)
				} else {
					// one level deeper: pending operands of two nested operators
					inner := term.Op("last", t.T.Ty, append(append([]*term.Term{}, pad[d/2:]...), t.T)...)
					full = term.Op("last", t.T.Ty, append(append([]*term.Term{}, pad[:d/2]...), inner, term.Const(int64(7)), inner.Clone())...)
					full = term.Op("last", t.T.Ty, full, inner.Clone())
				}
				src = full.Src()
				p := &Prog{T: full, Vars: t.Vars, Src: src, Size: full.Size()}
				r.Note(w, src)
				cs := compileAll(r, h, p, opts)
				vals := make([]interface{}, len(p.Vars))
				drive.ForBindings(Doms(p.Vars, false), vals, func() bool {
					env := envFor(p.Vars, vals)
					r1v, r1e := env.Eval(full)
					env3 := envFor(p.Vars, vals)
					r3v, r3e := env3.EvalTotal(full)
					for k := range cs {
						c := &cs[k]
						copy(c.f.Vals, vals)
						for mode := 0; mode < 2; mode++ {
							h.Reset()
							var got drive.Out
							if mode == 0 {
								got = h.Eval(c.e, c.f)
							} else {
								got = h.TryEval(c.e, c.f)
							}
							atomic.AddInt64(&ctxCases, 1)
							dd := func() map[string]interface{} {
								return caseDesc(src, c.o, p.Vars, vals, nil, map[string]interface{}{"entry": mode, "pending_operands": d})
							}
							if got.Panic != nil {
								r.Violate("stack-panic", sprintf("%d%s", d, got.Site), sprintf("evaluation panics with %d pending operands: %v (at %s)", d, got.Panic, got.Site), dd())
								continue
							}
							if r3e == nil && !drive.SameOutcome(got, drive.Out{Val: r3v}) {
								r.Violate("stack-wrong-value", sprintf("%d", d), sprintf("with %d pending operands the result is %s instead of %v", d, got, r3v), dd())
							} else if !c.o.RO && r1e == nil && !drive.SameOutcome(got, drive.Out{Val: r1v}) {
								r.Violate("stack-wrong-value", sprintf("%d", d), sprintf("with %d pending operands the result is %s instead of %v", d, got, r1v), dd())
							}
						}
					}
					return true
				})
			}
		}
		if i%211 == 0 {
			r.Sample(18, map[string]interface{}{"stack_context_tree": t.Src, "pending_operand_counts": depths})
		}
	})
	r.Cov["operand_count_members"] = len(ojobs)
	r.Cov["node_count_members"] = len(njobs)
	r.Cov["stack_context_executions"] = ctxCases
	r.Cov["compilations_rejected_by_a_limit"] = rejected
	r.Add(cases, evals+ctxCases+cases, evals+ctxCases, evals+ctxCases+cases, near)
	r.Finish()
}

func max2(a, b int) int {
	if a > b {
		return a
	}
	return b
}

func abs(x int) int {
	if x < 0 {
		return -x
	}
	return x
}

func trunc(s string, n int) string {
	if len(s) > n {
		return s[:n] + "…"
	}
	return s
}
