package props

import (
	"fmt"
	"math"
	"math/rand"
	"strconv"
	"strings"
	"sync/atomic"
	"time"

	eval "github.com/onheap/eval"

	"verifmc/drive"
	"verifmc/ref"
	"verifmc/rep"
	"verifmc/sx"
	"verifmc/term"
)

func init() { Registry["C20"] = c20 }

const c20Known = "C20-level0-bare-atom"

// scripted is a rand.Source whose answers the explorer chooses: Int63
// returns c<<32, which makes Intn(n) return c mod n for every n the
// generator uses.
type scripted struct {
	ans   []int
	pos   int
	extra int // draws beyond the script (answered 0)
}

func (s *scripted) Int63() int64 {
	if s.pos < len(s.ans) {
		v := s.ans[s.pos]
		s.pos++
		return int64(v) << 32
	}
	s.extra++
	return 0
}
func (s *scripted) Seed(int64) {}

// ---- draw-shape automaton: a model of the generator's CONTROL FLOW only ----

type drawKind int

const (
	dNode     drawKind = iota // Intn(10) at an inner level
	dLeafNode                 // Intn(10) at level 0
	dLeafVal                  // Intn(100)
	dSub                      // Intn(level)
	dArity                    // Intn(3)
)

type nextDraw struct {
	kind drawKind
	n    int
}

type shapeSim struct {
	ans  []int
	pos  int
	next *nextDraw
	cond bool
}

func (s *shapeSim) draw(k drawKind, n int) (int, bool) {
	if s.pos == len(s.ans) {
		if s.next == nil {
			s.next = &nextDraw{k, n}
		}
		return 0, false
	}
	v := s.ans[s.pos] % n
	s.pos++
	return v, true
}

// helper mirrors the recursion of GenerateRandomExpr's helper: which draws
// happen in which order. It never computes a value.
func (s *shapeSim) helper(genBool bool, n int) bool {
	if n == 0 {
		if _, ok := s.draw(dLeafNode, 10); !ok {
			return false
		}
		_, ok := s.draw(dLeafVal, 100)
		return ok
	}
	r, ok := s.draw(dNode, 10)
	if !ok {
		return false
	}
	if genBool && r < 3 {
		return s.helper(genBool, n-1)
	}
	if s.cond && r == 3 {
		for i := 0; i < 3; i++ {
			sub, ok := s.draw(dSub, n)
			if !ok {
				return false
			}
			if !s.helper(i == 0 || genBool, sub) {
				return false
			}
		}
		return true
	}
	l, ok := s.draw(dArity, 3)
	if !ok {
		return false
	}
	for i := 0; i < l+2; i++ {
		sub, ok := s.draw(dSub, n)
		if !ok {
			return false
		}
		if !s.helper(genBool, sub) {
			return false
		}
	}
	return true
}

var c20LeafVals = []int{0, 50, 51, 52}

func menuFor(d nextDraw) []int {
	switch d.kind {
	case dNode:
		return []int{0, 1, 2, 3, 4, 5, 6, 7, 8, 9}
	case dLeafNode:
		return []int{0, 1, 4} // variable, DNE variable, constant
	case dLeafVal:
		return c20LeafVals // variable indices, true/false boundary, -50, 0, 1 (thorough adds 1, 49, 99)
	case dArity:
		return []int{0, 1, 2}
	default:
		m := make([]int, d.n)
		for i := range m {
			m[i] = i
		}
		return m
	}
}

// ---- configuration of one generator run ----

type c20cfg struct {
	genBool         bool
	vars, cond, try bool
	viaGenVariables bool
	kinds           int // which variable kinds are installed: 0 all, 1 numbers only, 2 booleans only, 3 DNE only
}

func (c c20cfg) String() string {
	t := "number"
	if c.genBool {
		t = "bool"
	}
	return fmt.Sprintf("type=%s variables=%v conditions=%v tryeval=%v kinds=%s", t, c.vars, c.cond, c.try, []string{"all", "numbers-only", "booleans-only", "dne-only", "operator-named"}[c.kinds])
}

var (
	c20Num  = []eval.GenExprResult{{Expr: "n_min", Res: int64(math.MinInt64)}, {Expr: "n_m1", Res: int64(-1)}, {Expr: "n_zero", Res: int64(0)}, {Expr: "n_seven", Res: int64(7)}, {Expr: "n_max", Res: int64(math.MaxInt64)}}
	c20Bool = []eval.GenExprResult{{Expr: "b_true", Res: true}, {Expr: "b_false", Res: false}}
	c20Dne  = []eval.GenExprResult{{Expr: "d_one", Res: eval.DNE}, {Expr: "d_two", Res: eval.DNE}}
)

// variables whose NAMES are spelled like builtin operators (a registered
// variable in operand position is a variable whatever its name)
var (
	c20NumOp  = []eval.GenExprResult{{Expr: "mod", Res: int64(3)}, {Expr: "version", Res: int64(-2)}, {Expr: "date", Res: int64(0)}, {Expr: "add", Res: int64(11)}}
	c20BoolOp = []eval.GenExprResult{{Expr: "in", Res: true}, {Expr: "not", Res: false}, {Expr: "between", Res: true}}
	c20DneOp  = []eval.GenExprResult{{Expr: "xor", Res: eval.DNE}, {Expr: "overlap", Res: eval.DNE}}
)

func (c c20cfg) options() []eval.GenExprOption {
	var o []eval.GenExprOption
	if c.genBool {
		o = append(o, eval.GenType(eval.GenBool))
	} else {
		o = append(o, eval.GenType(eval.GenNumber))
	}
	if c.vars {
		o = append(o, eval.EnableVariable)
	}
	if c.cond {
		o = append(o, eval.EnableCondition)
	}
	if c.try {
		o = append(o, eval.EnableTryEval)
	}
	if c.viaGenVariables {
		o = append(o, eval.GenVariables(c20GenVarMap))
	} else {
		// fixed order, so that runs are replayable
		kinds := c.kinds
		o = append(o, func(g *eval.GenExprConfig) {
			if kinds == 0 || kinds == 1 {
				g.NumVariables = append(g.NumVariables, c20Num...)
			}
			if kinds == 0 || kinds == 2 {
				g.BoolVariables = append(g.BoolVariables, c20Bool...)
			}
			if kinds == 0 || kinds == 3 {
				g.DneVariables = append(g.DneVariables, c20Dne...)
			}
			if kinds == 4 {
				g.NumVariables = append(g.NumVariables, c20NumOp...)
				g.BoolVariables = append(g.BoolVariables, c20BoolOp...)
				g.DneVariables = append(g.DneVariables, c20DneOp...)
			}
		})
	}
	return o
}

// c20level is a defined integer type: UnifyType does not convert it, so it
// is neither a number nor a boolean for the generator and must not be used.
type c20level int32

// variables handed over through GenVariables, in the Go types a caller may use
var c20GenVarMap = map[string]interface{}{
	"n_seven": 7, "n_i32": int32(-9), "n_u8": uint8(200), "n_dur": 90*time.Second + 700*time.Millisecond, "n_time": time.Unix(1700000000, 5).UTC(),
	"b_true": true, "d_one": eval.DNE, "x_level": c20level(3), "x_str": "text", "x_list": []int{1, 2},
	// names with dotted parts that start with a digit; a whole-number float (not a number for the engine)
	"n_slot.0": 4, "b_flag.1": false, "n_q.2x": int64(-3), "x_float": float64(250), "x_float2": 2.5,
}

var c20GenVarWant = map[string]eval.Value{
	"n_seven": int64(7), "n_i32": int64(-9), "n_u8": int64(200), "n_dur": int64(90), "n_time": int64(1700000000),
	"b_true": true, "n_slot.0": int64(4), "b_flag.1": false, "n_q.2x": int64(-3),
}

// c20Value: the value of a variable under the engine's normalisation.
func c20Value(name string) (eval.Value, bool) {
	for _, l := range [][]eval.GenExprResult{c20Num, c20Bool, c20NumOp, c20BoolOp} {
		for _, v := range l {
			if v.Expr == name {
				return v.Res, true
			}
		}
	}
	// what the GenVariables entries are worth to the ENGINE (written down, not
	// computed with the library's own conversion); entries that are neither a
	// number nor a boolean for the engine (x_...) have no value here
	if v, ok := c20GenVarWant[name]; ok {
		return v, true
	}
	return nil, false
}

var c20OverCapacity int64

type c20worker struct {
	h   *drive.Harness
	cfg *eval.Config
}

func newC20Worker() *c20worker {
	w := &c20worker{h: drive.NewHarness()}
	w.cfg = eval.NewConfig()
	all := append(append(append([]eval.GenExprResult{}, c20Num...), c20Bool...), c20Dne...)
	all = append(append(append(all, c20NumOp...), c20BoolOp...), c20DneOp...)
	for i, v := range all {
		w.cfg.VariableKeyMap[v.Expr] = eval.VariableKey(i + 1)
	}
	for name := range c20GenVarMap {
		eval.GetOrRegisterKey(w.cfg, name)
	}
	return w
}

// c20vals: what the variables are worth for one generator call.
type c20vals struct {
	val       func(name string) (eval.Value, bool)
	dne       func(name string) bool
	isDefault bool
}

var c20Default = c20vals{isDefault: true, val: c20Value, dne: func(n string) bool {
	return strings.HasPrefix(n, "d_") || n == "xor" || n == "overlap"
}}

// isDefaultVals: is vf the default value source (the static variable tables)?
func isDefaultVals(vf c20vals) bool { return vf.isDefault }

type c20fetch struct{ v c20vals }

func (f c20fetch) val(s string) (eval.Value, bool) {
	if f.v.dne(s) {
		return nil, false
	}
	return f.v.val(s)
}
func (f c20fetch) Get(_ eval.VariableKey, s string) (eval.Value, error) {
	v, ok := f.val(s)
	if !ok {
		return nil, fmt.Errorf("variable %s has no value", s)
	}
	return v, nil
}
func (f c20fetch) Set(eval.VariableKey, string, eval.Value) error { return nil }
func (f c20fetch) Cached(_ eval.VariableKey, s string) bool       { _, ok := f.val(s); return ok }

// c20Check judges one generated (expression, reported result) pair.
func c20Check(r *rep.Run, w *c20worker, c c20cfg, level int, how string, res eval.GenExprResult, stats *[3]int64) {
	c20CheckV(r, w, c, level, how, res, stats, c20Default)
}

func c20CheckV(r *rep.Run, w *c20worker, c c20cfg, level int, how string, res eval.GenExprResult, stats *[3]int64, vf c20vals) {
	atomic.AddInt64(&stats[0], 1)
	d := map[string]interface{}{"level": level, "options": c.String(), "produced_by": how, "expression": res.Expr, "reported": fmt.Sprintf("%T(%v)", res.Res, res.Res)}
	// reference value
	t, err := sx.Parse(res.Expr)
	if err != nil {
		r.Violate("unparsable", c.String(), sprintf("the generated text is not an expression: %v", err), d)
		return
	}
	env := &ref.Env{Vals: map[string]interface{}{}, Custom: ref.Customs}
	hasDNE := false
	bad := ""
	t.Walk(func(n *term.Term) {
		if n.K != term.KVar {
			return
		}
		if vf.dne(n.Name) {
			hasDNE = true
			env.Vals[n.Name] = ref.Unknown
			return
		}
		v, ok := vf.val(n.Name)
		if !ok {
			bad = n.Name
			return
		}
		env.Vals[n.Name] = v
	})
	if bad != "" {
		r.Violate("unknown-variable", c.String(), sprintf("the generated expression uses %q, which it was not given", bad), d)
		return
	}
	var want interface{}
	var werr error
	if hasDNE {
		want, werr = env.Kleene(t)
		if want == ref.Unknown {
			want = eval.DNE
		}
	} else {
		want, werr = env.Eval(t)
	}
	if werr != nil {
		r.Violate("fails", c.String(), sprintf("the generated expression fails under the reference semantics: %v", werr), d)
		return
	}
	if !ref.ValEqual(want, res.Res) && !(want == eval.DNE && res.Res == eval.DNE) {
		d["reference_value"] = fmt.Sprintf("%T(%v)", want, want)
		r.Violate("wrong-result", c.String(), sprintf("GenerateRandomExpr reports %v for %s but its value is %v", res.Res, trunc(res.Expr, 200), want), d)
		return
	}
	// the engine: it must compile with the given variables and evaluate without failing to the same value
	e, cerr := w.h.Compile(w.cfg, res.Expr, 0)
	if cerr != nil {
		// the listed finding: a level-0 result that is a bare variable name or a
		// bare integer (nothing else: a bare `true`, say, is a different failure)
		atom := strings.TrimSpace(res.Expr)
		_, isInt := strconv.ParseInt(atom, 10, 64)
		_, isVar := vf.val(atom)
		bareAtom := isInt == nil || isVar || vf.dne(atom)
		if _, isPanic := cerr.(*drive.PanicErr); !isPanic && level == 0 && bareAtom && !strings.HasPrefix(atom, "(") && r.KnownOpen(c20Known) {
			r.HitKnown(c20Known)
			return
		}
		if level >= 8 && strings.Contains(cerr.Error(), "cannot exceed a maximum of") {
			// a deep-level expression larger than the engine's documented capacity
			// (C09's subject): counted, not judged
			atomic.AddInt64(&c20OverCapacity, 1)
			return
		}
		r.Violate("does-not-compile", c.String(), sprintf("the generated expression does not compile with the variables it was given: %v", cerr), d)
		return
	}
	atomic.AddInt64(&stats[1], 1)
	var got drive.Out
	var fetcher eval.VariableFetcher = c20fetch{vf}
	if c.viaGenVariables && vf.val != nil && isDefaultVals(vf) {
		// the variables exactly as the caller holds them, through the library's
		// own fetcher (DNE-valued entries are the generator's convention)
		fetcher = eval.NewMapVarFetcher(c20GenVarMap)
	}
	if hasDNE {
		got = w.h.TryEval(e, fetcher)
	} else {
		got = w.h.Eval(e, fetcher)
	}
	atomic.AddInt64(&stats[2], 1)
	if got.Err != nil || got.Panic != nil || (!ref.ValEqual(got.Val, res.Res) && !(got.Val == eval.DNE && res.Res == eval.DNE)) {
		d["engine"] = got.String()
		r.Violate("engine-disagrees", c.String(), sprintf("evaluating the generated expression gives %s, the generator reports %v", got, res.Res), d)
		return
	}
	// the same evaluation through the context the LIBRARY builds from the
	// variables (NewCtxFromVars picks the fetcher from the config: every name is
	// registered, so the slice-backed one); DNE variables are handed over the
	// way the generator describes them, as DNE-valued entries
	given := map[string]interface{}{}
	for name := range env.Vals {
		if vf.dne(name) {
			given[name] = eval.DNE
		} else if v, ok := vf.val(name); ok {
			given[name] = v
		}
	}
	var lv eval.Value
	var lerr error
	pn, site := drive.Fence(func() {
		ctx := eval.NewCtxFromVars(w.cfg, given)
		if hasDNE {
			lv, lerr = e.TryEval(ctx)
		} else {
			lv, lerr = e.Eval(ctx)
		}
	})
	if pn != nil || lerr != nil || (!ref.ValEqual(lv, res.Res) && !(lv == eval.DNE && res.Res == eval.DNE)) {
		d["engine_through_NewCtxFromVars"] = fmt.Sprintf("%v / %v / panic %v %s", lv, lerr, pn, site)
		r.Violate("engine-disagrees", c.String()+"libctx", sprintf("evaluating the generated expression with the context NewCtxFromVars builds from its variables gives %v (error %v, panic %v), the generator reports %v", lv, lerr, pn, res.Res), d)
	}
}

func c20(r *rep.Run) {
	maxDev, seeds, exhaustLevel := 3, 4000, 1
	r.SetBudget(300e9)
	if r.Thorough() {
		maxDev, seeds = 4, 100000
		c20LeafVals = []int{0, 1, 49, 50, 51, 52, 99}
		r.SetBudget(2400e9)
	}
	r.Rule = "the generator draws only from the *rand.Rand it is given; the harness supplies rand.New(scripted source) whose answers the explorer chooses (Int63 = c<<32 makes Intn(n) = c mod n). A draw-shape automaton (control flow only: which draw comes next — node choice, leaf choice, leaf value, sub-level, arity) gives each draw its menu; it is bound to the code on every run: the real generator must consume exactly the predicted number of draws. Menus are complete for structural draws (10 node choices, all sub-levels, 3 arities) and use value classes for leaves ({variable, DNE variable, constant} x {every variable index, both sides of the true/false boundary, the numbers -50, 0, 1 (thorough: also -49, -1, 49)}). DFS: EVERY decision sequence at level <= 1; at levels 2..4 every sequence with at most maxDev non-default answers (deviation bound); plus every real seed 0..N at levels 0..6; x both result types x all 8 option combinations (+ variables through GenVariables; + variables of every kind whose names are spelled like builtin operators; + one GenVariables option object reused over every history of 3 value phases written into the same map). Oracle: the text parses, reference evaluation (R1, or Kleene R2 when a DNE variable occurs) does not fail and equals the reported result; the expression compiles with the given variables and the engine's Eval/TryEval returns the same value. non-trivial = generated expressions containing an operator application"
	r.Assume = []string{"math/rand's Intn(n) = Int31n for n < 2^31: (Int63()>>32) mod n for the small n used (checked by the draw-count binding on every run)",
		"leaf value draws use 5 value classes, not all 100 values; real seeds cover the rest by sampling a range exhaustively"}
	var cfgs []c20cfg
	for _, gb := range []bool{true, false} {
		for m := 0; m < 8; m++ {
			cfgs = append(cfgs, c20cfg{genBool: gb, vars: m&1 != 0, cond: m&2 != 0, try: m&4 != 0})
		}
		cfgs = append(cfgs, c20cfg{genBool: gb, vars: true, cond: true, try: true, viaGenVariables: true})
		// only some kinds of variables are supplied (incl. kinds that do not match the result type)
		for kinds := 1; kinds <= 4; kinds++ {
			cfgs = append(cfgs, c20cfg{genBool: gb, vars: true, cond: true, try: true, kinds: kinds}, c20cfg{genBool: gb, vars: true, cond: false, try: kinds >= 3, kinds: kinds})
		}
	}
	ws := make([]*c20worker, r.Workers)
	for i := range ws {
		ws[i] = newC20Worker()
	}
	var stats [3]int64
	var sequences, outOfSync, nontrivial int64

	// one scripted run
	runScript := func(w *c20worker, c c20cfg, level int, ans []int) {
		src := &scripted{ans: ans}
		var res eval.GenExprResult
		if p, site := drive.Fence(func() { res = eval.GenerateRandomExpr(level, rand.New(src), c.options()...) }); p != nil {
			r.Violate("generator-panic", site, sprintf("GenerateRandomExpr panics: %v", p), map[string]interface{}{"level": level, "options": c.String(), "answers": fmt.Sprint(ans)})
			return
		}
		atomic.AddInt64(&sequences, 1)
		if src.pos != len(ans) || src.extra != 0 {
			atomic.AddInt64(&outOfSync, 1) // the shape model drifted: costs coverage, not soundness
		}
		if strings.Contains(res.Expr, "(") && strings.Count(res.Expr, "(") > 1 || strings.Contains(res.Expr, "(") && !strings.HasPrefix(res.Expr, "(= 0 0)") && !strings.HasPrefix(res.Expr, "(!= 0 0)") {
			atomic.AddInt64(&nontrivial, 1)
		}
		c20Check(r, w, c, level, "scripted answers "+fmt.Sprint(ans), res, &stats)
	}

	// DFS over answer sequences; sharded by configuration x level x first answer
	type job struct {
		c     c20cfg
		level int
		first int
		dev   int // deviation bound (-1: none)
	}
	var jobs []job
	for _, c := range cfgs {
		if c.viaGenVariables {
			continue
		}
		for level := 0; level <= 4; level++ {
			if c.kinds != 0 && level > 2 && !r.Thorough() {
				continue
			}
			dev := maxDev
			if level <= exhaustLevel && c.kinds == 0 {
				dev = -1
			}
			if level == 0 {
				jobs = append(jobs, job{c, level, -1, dev})
				continue
			}
			for f := 0; f < 10; f++ {
				jobs = append(jobs, job{c, level, f, dev})
			}
		}
	}
	r.ParallelFor(len(jobs), func(wi, ji int) {
		j := jobs[ji]
		w := ws[wi]
		r.Note(wi, sprintf("%s level %d first answer %d", j.c, j.level, j.first))
		var ans []int
		var rec func(devUsed int)
		cnt := 0
		rec = func(devUsed int) {
			sim := &shapeSim{ans: ans, cond: j.c.cond}
			if sim.helper(j.c.genBool, j.level) {
				runScript(w, j.c, j.level, append([]int(nil), ans...))
				if cnt++; cnt%4096 == 0 {
					r.Note(wi, sprintf("%s level %d sequence #%d", j.c, j.level, cnt))
				}
				return
			}
			menu := menuFor(*sim.next)
			for k, a := range menu {
				if len(ans) == 0 && j.first >= 0 && a != j.first {
					continue
				}
				nd := devUsed
				if k != 0 && !(len(ans) == 0 && j.first >= 0) {
					nd++
				}
				if j.dev >= 0 && nd > j.dev {
					continue
				}
				ans = append(ans, a)
				rec(nd)
				ans = ans[:len(ans)-1]
			}
		}
		rec(0)
		if ji%23 == 0 {
			r.Sample(8, map[string]interface{}{"dfs": sprintf("%s level %d first answer %d", j.c, j.level, j.first), "sequences": cnt})
		}
	})
	fmtSeq := sequences

	// real seeds
	type sjob struct {
		c     c20cfg
		level int
	}
	var sjobs []sjob
	for _, c := range cfgs {
		for level := 0; level <= 6; level++ {
			sjobs = append(sjobs, sjob{c, level})
		}
		// deep levels (expressions of 10..100 KB): around every power of two up
		// to 128, where per-level bookkeeping would wrap
		for _, level := range []int{8, 15, 16, 17, 31, 32, 33, 63, 64, 65, 66, 100, 127, 128, 129} {
			sjobs = append(sjobs, sjob{c, level})
		}
	}
	var seedRuns int64
	r.ParallelFor(len(sjobs), func(wi, ji int) {
		j := sjobs[ji]
		w := ws[wi]
		n := seeds
		if j.level >= 5 {
			n = seeds / 4
		}
		if j.level >= 8 {
			n = seeds / 200
		}
		for s := 0; s < n; s++ {
			if s%512 == 0 {
				r.Note(wi, sprintf("%s level %d seed %d", j.c, j.level, s))
			}
			var res eval.GenExprResult
			if p, site := drive.Fence(func() { res = eval.GenerateRandomExpr(j.level, rand.New(rand.NewSource(int64(s))), j.c.options()...) }); p != nil {
				r.Violate("generator-panic", site, sprintf("GenerateRandomExpr panics: %v", p), map[string]interface{}{"level": j.level, "options": j.c.String(), "seed": s})
				continue
			}
			atomic.AddInt64(&seedRuns, 1)
			if j.c.viaGenVariables {
				// variable names differ (subset); values identical by construction
			}
			c20Check(r, w, j.c, j.level, sprintf("seed %d", s), res, &stats)
		}
		if ji%29 == 0 {
			r.Sample(14, map[string]interface{}{"seed_range": sprintf("%s level %d seeds 0..%d", j.c, j.level, n-1)})
		}
	})
	// one GenVariables option object REUSED while the caller's map changes:
	// every history (depth <= 3) of 3 value phases; after each change the
	// generator runs for every seed 0..S at levels 0..3 and is judged against
	// the values the map holds at that call
	{
		phases := []map[string]interface{}{
			{"n_a": 7, "n_b": int32(-9), "n_c": 0, "b_p": true, "b_q": false, "d_u": eval.DNE},
			{"n_a": 0, "n_b": int64(4), "n_c": eval.DNE, "b_p": false, "b_q": false, "d_u": 5},
			{"n_a": -1, "n_b": 0, "n_c": 12, "b_p": eval.DNE, "b_q": true, "d_u": eval.DNE},
		}
		var hists [][]int
		for a := 0; a < 3; a++ {
			hists = append(hists, []int{a})
			for b := 0; b < 3; b++ {
				if b != a {
					hists = append(hists, []int{a, b})
					for c := 0; c < 3; c++ {
						if c != b {
							hists = append(hists, []int{a, b, c})
						}
					}
				}
			}
		}
		reuseSeeds := 60
		if r.Thorough() {
			reuseSeeds = 600
		}
		var reuseRuns int64
		type rjob struct {
			h  []int
			gb bool
		}
		var rjobs []rjob
		for _, h := range hists {
			rjobs = append(rjobs, rjob{h, true}, rjob{h, false})
		}
		r.ParallelFor(len(rjobs), func(wi, ji int) {
			j := rjobs[ji]
			m := map[string]interface{}{}
			for k, v := range phases[j.h[0]] {
				m[k] = v
			}
			cfg := eval.NewConfig()
			for name := range m {
				eval.GetOrRegisterKey(cfg, name)
			}
			w := &c20worker{h: drive.NewHarness(), cfg: cfg}
			gt := eval.GenType(eval.GenNumber)
			if j.gb {
				gt = eval.GenType(eval.GenBool)
			}
			opts := []eval.GenExprOption{gt, eval.EnableVariable, eval.EnableCondition, eval.EnableTryEval, eval.GenVariables(m)}
			vf := c20vals{val: func(n string) (eval.Value, bool) {
				v, ok := m[n]
				if !ok {
					return nil, false
				}
				return eval.UnifyType(v), true
			}, dne: func(n string) bool { return m[n] == interface{}(eval.DNE) }}
			c := c20cfg{genBool: j.gb, vars: true, cond: true, try: true, viaGenVariables: true}
			for step, ph := range j.h {
				for k, v := range phases[ph] {
					m[k] = v // same names, new values, same map object
				}
				for level := 0; level <= 3; level++ {
					for sd := 0; sd < reuseSeeds; sd++ {
						var res eval.GenExprResult
						if p, site := drive.Fence(func() { res = eval.GenerateRandomExpr(level, rand.New(rand.NewSource(int64(sd))), opts...) }); p != nil {
							r.Violate("generator-panic", site, sprintf("GenerateRandomExpr panics: %v", p), map[string]interface{}{"level": level, "seed": sd})
							continue
						}
						atomic.AddInt64(&reuseRuns, 1)
						c20CheckV(r, w, c, level, sprintf("seed %d, one GenVariables option reused, map values rewritten through phases %v (now at step %d)", sd, j.h, step+1), res, &stats, vf)
					}
				}
			}
		})
		r.Cov["reused_option_histories"] = len(rjobs)
		r.Cov["reused_option_runs"] = reuseRuns
		seedRuns += reuseRuns
	}
	// several GenVariables options in ONE call (a caller holding its variables
	// in more than one map): every ordered sequence of 2..3 distinct maps from a
	// menu that splits the GenVariables names by kind and size; the generator
	// must see the union, each name with its own kind and value
	{
		pick := func(names ...string) map[string]interface{} {
			m := map[string]interface{}{}
			for _, n := range names {
				v, ok := c20GenVarMap[n]
				if !ok {
					panic("c20: unknown GenVariables name " + n)
				}
				m[n] = v
			}
			return m
		}
		menu := []map[string]interface{}{
			pick("b_true", "b_flag.1", "n_seven"),
			pick("n_i32"),
			pick("n_u8", "n_q.2x", "n_slot.0"),
			pick("d_one", "x_str"),
			pick("n_dur", "n_time", "x_level"),
			pick("b_flag.1"),
		}
		var seqs [][]int
		for a := range menu {
			for b := range menu {
				if b == a || (a == 0 && b == 5) || (a == 5 && b == 0) {
					continue
				}
				seqs = append(seqs, []int{a, b})
				for c := range menu {
					if c == a || c == b || ((a == 0 || b == 0) && c == 5) || ((a == 5 || b == 5) && c == 0) {
						continue
					}
					seqs = append(seqs, []int{a, b, c})
				}
			}
		}
		multiSeeds := 40
		if r.Thorough() {
			multiSeeds = 400
		}
		var multiRuns int64
		r.ParallelFor(len(seqs)*2, func(wi, ji int) {
			sq, gb := seqs[ji/2], ji%2 == 0
			w := ws[wi]
			gt := eval.GenType(eval.GenNumber)
			if gb {
				gt = eval.GenType(eval.GenBool)
			}
			opts := []eval.GenExprOption{gt, eval.EnableVariable, eval.EnableCondition, eval.EnableTryEval}
			for _, k := range sq {
				opts = append(opts, eval.GenVariables(menu[k]))
			}
			c := c20cfg{genBool: gb, vars: true, cond: true, try: true, viaGenVariables: true}
			for level := 1; level <= 5; level++ {
				for sd := 0; sd < multiSeeds; sd++ {
					var res eval.GenExprResult
					if p, site := drive.Fence(func() { res = eval.GenerateRandomExpr(level, rand.New(rand.NewSource(int64(sd))), opts...) }); p != nil {
						r.Violate("generator-panic", site, sprintf("GenerateRandomExpr panics: %v", p), map[string]interface{}{"level": level, "seed": sd, "GenVariables_maps": fmt.Sprint(sq)})
						continue
					}
					atomic.AddInt64(&multiRuns, 1)
					c20Check(r, w, c, level, sprintf("seed %d, GenVariables options for the maps %v of the menu in one call", sd, sq), res, &stats)
				}
			}
		})
		r.Cov["multi_map_sequences"] = len(seqs) * 2
		r.Cov["multi_map_runs"] = multiRuns
		seedRuns += multiRuns
	}
	r.Cov["deep_level_expressions_over_engine_capacity"] = atomic.LoadInt64(&c20OverCapacity)
	r.Cov["decision_sequences"] = fmtSeq
	r.Cov["shape_model_in_sync"] = outOfSync == 0
	r.Cov["shape_model_out_of_sync_runs"] = outOfSync
	r.Cov["seed_runs"] = seedRuns
	r.Cov["deviation_bound_levels_2_to_4"] = maxDev
	r.Cov["exhaustive_up_to_level"] = exhaustLevel
	r.Cov["generated_expressions_that_compiled"] = stats[1]
	r.Add(stats[0], sequences+seedRuns+stats[2], stats[0], stats[0]+stats[2], nontrivial)
	r.Finish()
}
