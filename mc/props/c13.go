package props

import (
	"fmt"
	"math"
	"strings"
	"sync/atomic"

	eval "github.com/onheap/eval"

	"verifmc/drive"
	"verifmc/rep"
	"verifmc/sx"
	"verifmc/term"
)

func init() { Registry["C13"] = c13 }

// characters string literals are built from (everything the lexer accepts
// inside quotes except the quote itself)
var c13Chars = []rune{'a', ' ', '(', ')', ';', '\\', '\n', '\t', '\'', '[', ',', 'é', '☃', '\x01', '%', '$', '{', '`', '#', '|', '\r', '\u2028'}

func c13Strings(maxLen int) []string {
	out := []string{""}
	prev := []string{""}
	for l := 1; l <= maxLen; l++ {
		var cur []string
		for _, p := range prev {
			for _, c := range c13Chars {
				cur = append(cur, p+string(c))
			}
		}
		out = append(out, cur...)
		prev = cur
	}
	return out
}

type c13case struct {
	src    string
	consts map[string]interface{}
	vars   []term.VarDecl
	binds  [][]interface{}
	what   string
	// optional: the source may legitimately be rejected under some option
	// sets (a capacity limit): only accepted compilations are judged
	optional bool
}

func c13Round(r *rep.Run, h *drive.Harness, c *c13case, o drive.Opt, stats *[3]int64) {
	// the names under which the text is recompiled always include variables
	// CALLED true and false, bound to the opposite values: Dump prints folded
	// booleans as the words true/false, which must keep meaning the constants
	{
		cc := *c
		cc.vars = append(append([]term.VarDecl{}, c.vars...), term.VarDecl{Name: "true", Ty: term.TB}, term.VarDecl{Name: "false", Ty: term.TB})
		cc.binds = nil
		for _, b := range c.binds {
			cc.binds = append(cc.binds, append(append([]interface{}{}, b...), false, true))
		}
		c = &cc
	}
	mk := func(o drive.Opt) *eval.Config {
		cfg := h.NewConfig(c.vars, o)
		for k, v := range c.consts {
			cfg.ConstantMap[k] = v
		}
		return cfg
	}
	d := func(extra map[string]interface{}) map[string]interface{} {
		m := map[string]interface{}{"source": c.src, "config": o.String(), "literal": c.what}
		for k, v := range extra {
			m[k] = v
		}
		return m
	}
	e, err := h.Compile(mk(o), c.src, 256)
	atomic.AddInt64(&stats[0], 1)
	if err != nil {
		if _, isPanic := err.(*drive.PanicErr); !isPanic && c.optional {
			return
		}
		r.Violate("compile", c.src, sprintf("corpus source does not compile: %v", err), d(nil))
		return
	}
	var text string
	if p, site := drive.Fence(func() { text = eval.Dump(e) }); p != nil {
		r.Violate("dump-panic", site, sprintf("Dump panics: %v", p), d(nil))
		return
	}
	if p, site := drive.Fence(func() { eval.DumpTable(e, false); eval.DumpTable(e, true) }); p != nil {
		r.Violate("dumptable-panic", site, sprintf("DumpTable panics: %v", p), d(nil))
	}
	if !strings.HasPrefix(text, "(") {
		// folded to a bare scalar constant: excluded by the statement — but a
		// bare variable is not a constant
		if bt, perr := sx.Parse(text); perr == nil && bt.K == term.KVar {
			if _, cerr := h.Compile(mk(drive.Opt{Infix: o.Infix}), text, 0); cerr != nil {
				r.Violate("dump-does-not-compile", c.what+o.String()+"bare", sprintf("the program collapsed to the bare variable %s, whose Dump does not compile: %v", text, cerr), d(map[string]interface{}{"dump": text}))
			}
		}
		return
	}
	atomic.AddInt64(&stats[1], 1)
	unopt := drive.Opt{}
	e2, err := h.Compile(mk(unopt), text, 256)
	if err != nil {
		r.Violate("dump-does-not-compile", c.what+o.String(), sprintf("Dump output does not compile under the same names: %v", err), d(map[string]interface{}{"dump": text}))
		return
	}
	var text2 string
	drive.Fence(func() { text2 = eval.Dump(e2) })
	if text2 != text {
		r.Violate("dump-not-fixpoint", c.what+o.String(), "dumping the recompiled (unoptimised) program does not reproduce the text", d(map[string]interface{}{"dump": text, "dump_of_recompiled": text2}))
	}
	so := o
	so.Events = 0
	e3, err := h.Compile(mk(so), text, 256)
	if err != nil {
		r.Violate("dump-does-not-compile", c.what+o.String()+"same", sprintf("Dump output does not compile under the same options: %v", err), d(map[string]interface{}{"dump": text}))
		return
	}
	f := drive.NewFetcher(h, c.vars, o)
	for _, b := range c.binds {
		copy(f.Vals, b)
		h.Reset()
		want := h.Eval(e, f)
		for k, ex := range []*eval.Expr{e2, e3} {
			h.Reset()
			got := h.Eval(ex, f)
			atomic.AddInt64(&stats[2], 1)
			if !drive.SameOutcome(got, want) {
				r.Violate("recompiled-differs", c.what+o.String(), sprintf("the program recompiled from Dump returns %s where the original returns %s", got, want),
					d(map[string]interface{}{"dump": text, "binding": fmt.Sprint(b), "recompiled_with": []string{"optimisations off", "the same options"}[k]}))
			}
		}
	}
}

func c13(r *rep.Run) {
	strLen, progMax := 2, 5
	r.SetBudget(300e9)
	if r.Thorough() {
		strLen, progMax = 3, 6
		r.SetBudget(1800e9)
	}
	r.Rule = "(1) every string of length <= bound over 14 characters (blank, parens, semicolon, backslash, line break, tab, apostrophe, bracket, comma, non-ASCII, control) and ints {0,-1,min,max}, as a literal, inside a list literal and as a ConstantMap constant, in 7 expression contexts x 16 optimisation subsets x {events off, ReportEvent, Debug}; (2) every RICH/CORE program up to the node bound x the same configurations. (3) nested same-kind and/or groups totalling 120..131 operands once flattened (judged wherever Compile accepts them). The names always include variables CALLED true and false bound to the opposite values. Oracle: unless the program folded to a bare scalar, Compile(Dump(e)) succeeds under the same names, the recompiled program (optimisations off, and with the same options) returns the same result as the original on every binding, and Dump(Compile_unoptimised(Dump(e))) == Dump(e). non-trivial = round trips whose Dump text contains a character outside [A-Za-z0-9 ()\"=]"
	r.Assume = []string{"string literals never contain a double quote (the lexer cannot produce one)", "small-scope hypothesis on tree size for part (2)"}
	r.Cov["bounds"] = map[string]int{"string_len": strLen, "program_nodes": progMax}
	strs := c13Strings(strLen)
	if !r.Thorough() {
		// quick: all strings <= 2 plus every length-3 string that starts and ends with a special character pair
		for _, a := range c13Chars[1:] {
			for _, b := range c13Chars {
				strs = append(strs, string(a)+"a"+string(b), string(a)+string(b)+string(a))
			}
		}
	}
	// words that mean something to the compiler, the printer or the lexer, as plain data
	strs = append(strs, "fi", "if", "and", "or", "not", "true", "false", "T", "F", "DNE", "eventNode", "()", "(1 2)", "nil", "<nil>", "0", "-1", "1.5", "KL", "s", "b",
		"let", "map", "in", "version", ";;;;optimize:false", "fi ", " fi", "FI")
	ints := []int64{0, -1, math.MinInt64, math.MaxInt64, 42}
	sv := []term.VarDecl{{Name: "s", Ty: term.TS}, {Name: "b", Ty: term.TB}, {Name: "ls", Ty: term.TSL}}
	var cases []*c13case
	for _, L := range strs {
		q := `"` + L + `"`
		binds := [][]interface{}{{L, true, []string{L}}, {L + "x", false, []string{"x"}}, {"", true, []string{}}}
		for _, src := range []string{
			"(= s " + q + ")",
			"(if (= s " + q + ") 1 2)",
			"(and (= s " + q + ") b)",
			"(in s (" + q + " \"k\" " + q + "))",
			"(overlap ls (" + q + "))",
			"(or (= " + q + " " + q + ") b (= s KL))",
			"(= s KL)",
			"(in s KLL)",
		} {
			cases = append(cases, &c13case{src: src, consts: map[string]interface{}{"KL": L, "KLL": []string{L, "z"}}, vars: sv, binds: binds, what: fmt.Sprintf("%q", L)})
		}
	}
	// variables and operators named like internal markers
	wv := []term.VarDecl{{Name: "fi", Ty: term.TS}, {Name: "eventNode", Ty: term.TB}, {Name: "DNE", Ty: term.TS}}
	wb := [][]interface{}{{"fi", true, "x"}, {"x", false, "fi"}}
	for _, src := range []string{`(= fi "fi")`, `(if eventNode fi DNE)`, `(and (= fi DNE) eventNode)`, `(= DNE (if (= fi "fi") "fi" "if"))`, `(in fi ("fi" "if" "fi"))`, `(or eventNode (= "fi" fi) (= DNE "DNE"))`} {
		cases = append(cases, &c13case{src: src, vars: wv, binds: wb, what: "marker words as names"})
	}
	iv := []term.VarDecl{{Name: "n", Ty: term.TI}, {Name: "li", Ty: term.TIL}}
	for _, I := range ints {
		for _, J := range ints {
			binds := [][]interface{}{{I, []int64{J}}, {J, []int64{}}, {int64(7), []int64{I, J}}}
			for _, src := range []string{
				fmt.Sprintf("(= n %d)", I),
				fmt.Sprintf("(in n (010 -007 00 %d))", I),
				fmt.Sprintf("(= (+ n 0100) %d)", J),
				fmt.Sprintf("(in n (%d %d))", I, J),
				fmt.Sprintf("(overlap li (%d %d %d))", J, I, J),
				fmt.Sprintf("(if (< n %d) %d %d)", I, J, I),
				"(in n KIL)",
				"(= (+ n KI) 0)",
				"(in n ())",
			} {
				cases = append(cases, &c13case{src: src, consts: map[string]interface{}{"KI": I, "KIL": []int64{I, J}}, vars: iv, binds: binds, what: fmt.Sprintf("%d,%d", I, J)})
			}
		}
	}
	// long list literals (an optimiser may represent them differently)
	for _, k := range []int{4, 15, 16, 17, 40, 99, 100, 120} {
		var is, ss []string
		var il []int64
		var sl []string
		for i := 0; i < k; i++ {
			v := int64((i*37)%101 - 50)
			is = append(is, fmt.Sprint(v))
			il = append(il, v)
			ss = append(ss, fmt.Sprintf("\"e %d\"", i))
			sl = append(sl, fmt.Sprintf("e %d", i))
		}
		cases = append(cases,
			&c13case{src: "(in n (" + strings.Join(is, " ") + "))", vars: iv, binds: [][]interface{}{{int64(-50), []int64{1}}, {int64(999), []int64{}}}, what: fmt.Sprintf("int list of %d", k)},
			&c13case{src: "(and (overlap li (" + strings.Join(is, " ") + ")) (in n KIL))", consts: map[string]interface{}{"KIL": il}, vars: iv, binds: [][]interface{}{{int64(-50), []int64{-50}}, {int64(999), []int64{999}}}, what: fmt.Sprintf("int list of %d", k)},
			&c13case{src: "(in s (" + strings.Join(ss, " ") + "))", vars: sv, binds: [][]interface{}{{"e 3", true, []string{}}, {"zz", true, []string{}}}, what: fmt.Sprintf("string list of %d", k)},
			&c13case{src: "(or (overlap ls (" + strings.Join(ss, " ") + ")) (in s KLL))", consts: map[string]interface{}{"KLL": sl}, vars: sv, binds: [][]interface{}{{"e 3", true, []string{"e 2"}}, {"zz", true, []string{"q"}}}, what: fmt.Sprintf("string list of %d", k)},
		)
	}
	// long string lists whose elements contain blanks next to digits, quotes'
	// neighbours, brackets and separators, shifted column by column (a first
	// element of growing length): wherever a printer might break or re-space a
	// long line, some element has a blank exactly there; every element is
	// probed afterwards
	for _, shape := range []string{"%d x", "x %d", "room %d left", " lead%d", "trail%d ", "%d %d", "a  b%d", "(x) %d", "a;b %d", "%d ) (", "9 %d\tz"} {
		for _, k := range []int{17, 40, 100} {
			for shift := 0; shift < 12; shift++ {
				if k == 100 && shift%4 != 0 {
					continue
				}
				var ss, sl []string
				first := "p" + strings.Repeat("q", shift)
				ss, sl = append(ss, `"`+first+`"`), append(sl, first)
				for i := 0; i < k; i++ {
					el := fmt.Sprintf(shape, i)
					if strings.Count(shape, "%d") == 2 {
						el = fmt.Sprintf(shape, i, i+1)
					}
					ss, sl = append(ss, `"`+el+`"`), append(sl, el)
				}
				var binds [][]interface{}
				for _, el := range sl {
					binds = append(binds, []interface{}{el, true, []string{el}})
				}
				binds = append(binds, []interface{}{"zz", true, []string{"q"}})
				cases = append(cases,
					&c13case{src: "(in s (" + strings.Join(ss, " ") + "))", vars: sv, binds: binds, what: fmt.Sprintf("string list of %d elements shaped %q, shifted %d", k, shape, shift)},
					&c13case{src: "(or (overlap ls KLL) (in s KLL))", consts: map[string]interface{}{"KLL": sl}, vars: sv, binds: binds[:5], what: fmt.Sprintf("constant string list of %d elements shaped %q, shifted %d", k, shape, shift)})
			}
		}
	}
	// one very long line: a list literal of 14000 integers (> 64 KiB of text
	// without a line break) nested two levels deep
	{
		var is []string
		for i := 0; i < 14000; i++ {
			is = append(is, fmt.Sprint(100000+i))
		}
		cases = append(cases, &c13case{src: "(and (not (in n (" + strings.Join(is, " ") + "))) b)", vars: []term.VarDecl{{Name: "n", Ty: term.TI}, {Name: "b", Ty: term.TB}},
			binds: [][]interface{}{{int64(100000), true}, {int64(113999), true}, {int64(5), true}, {int64(5), false}}, what: "int list of 14000 elements on one line"})
	}
	// nested same-kind and/or groups whose operands total 120..131 once
	// flattened (each written operator stays <= 127): where Compile accepts the
	// source, the program it dumps must compile again
	for _, opn := range []string{"and", "or"} {
		for total := 120; total <= 131; total++ {
			for _, split := range []int{2, 64, total - 3} {
				a, b := split, total-1-split
				if a < 2 || b < 2 || a > 127 || b > 127 {
					continue
				}
				g := func(k int) string { return "(" + opn + strings.Repeat(" b", k) + ")" }
				cases = append(cases,
					&c13case{src: "(" + opn + " " + g(a) + " " + g(b) + " b)", vars: []term.VarDecl{{Name: "b", Ty: term.TB}}, binds: [][]interface{}{{true}, {false}}, what: fmt.Sprintf("nested %s groups totalling %d", opn, total), optional: true},
					&c13case{src: "(" + opn + " b " + g(a) + " (= 1 1) " + g(b-1) + ")", vars: []term.VarDecl{{Name: "b", Ty: term.TB}}, binds: [][]interface{}{{true}, {false}}, what: fmt.Sprintf("nested %s groups totalling %d", opn, total), optional: true})
			}
		}
	}
	r.Cov["literal_cases"] = len(cases)
	hs := harnesses(r.Workers)
	opts := optMatrix(0, 1, 2)
	var stats [3]int64
	var special int64
	r.ParallelFor(len(cases), func(w, i int) {
		c := cases[i]
		r.Note(w, c.src)
		for _, o := range opts {
			c13Round(r, hs[w], c, o, &stats)
		}
		if strings.ContainsAny(c.what, " ();\\n\\t'[,é☃\\") {
			atomic.AddInt64(&special, 1)
		}
		if i%2003 == 0 {
			r.Sample(8, map[string]interface{}{"source": c.src})
		}
	})
	// deep nesting: Dump indents by nesting level, so its text grows roughly
	// with the square of the depth (a 7 KB source of 1100 levels dumps to more
	// than 1 MB); whatever Compile accepted must dump to text Compile accepts
	{
		depths := []int{300, 1100}
		if r.Thorough() {
			depths = append(depths, 1600)
		}
		var deep []*c13case
		for _, dpt := range depths {
			deep = append(deep,
				&c13case{src: strings.Repeat("(not ", dpt) + "b" + strings.Repeat(")", dpt), vars: []term.VarDecl{{Name: "b", Ty: term.TB}}, binds: [][]interface{}{{true}, {false}}, what: fmt.Sprintf("not-chain of %d levels", dpt)},
				&c13case{src: strings.Repeat("(+ 1 ", dpt) + "n" + strings.Repeat(")", dpt), vars: []term.VarDecl{{Name: "n", Ty: term.TI}}, binds: [][]interface{}{{int64(5)}}, what: fmt.Sprintf("sum-chain of %d levels", dpt)})
		}
		type dj struct {
			c *c13case
			o drive.Opt
		}
		var djs []dj
		for _, c := range deep {
			djs = append(djs, dj{c, drive.Opt{}}, dj{c, drive.Opt{CF: true, RN: true, FE: true, RO: true}})
		}
		r.ParallelFor(len(djs), func(w, i int) {
			r.Note(w, djs[i].c.what)
			c13Round(r, hs[w], djs[i].c, djs[i].o, &stats)
		})
		r.Cov["deep_nesting_rounds"] = len(djs)
	}
	// (2) structural corpus
	progs, _ := corpus(progMax, progMax)
	// every shape of nested if / fast operator / and up to 8 nodes over a tiny alphabet
	ifAlpha := &term.Alphabet{
		Leaves: map[term.Ty][]*term.Term{B: {term.Var("b", B)}, I: {term.Var("n", I), term.Const(1)}},
		Ops: []term.OpSig{{Name: "if", Args: []term.Ty{B, I, I}, Ret: I, If: true}, {Name: "if", Args: []term.Ty{B, B, B}, Ret: B, If: true},
			sig("+", I, I, I), sig("and", B, B, B), sig("=", B, I, I)},
	}
	ifMax := 8
	if r.Thorough() {
		ifMax = 9
	}
	for _, p := range Programs(ifAlpha, []term.Ty{B, I}, ifMax) {
		if p.Size > progMax && strings.Contains(p.Src, "(if") {
			progs = append(progs, p)
		}
	}
	r.Cov["programs"] = len(progs)
	r.ParallelFor(len(progs), func(w, i int) {
		p := progs[i]
		r.Note(w, p.Src)
		vals := make([]interface{}, len(p.Vars))
		var binds [][]interface{}
		drive.ForBindings(Doms(p.Vars, false), vals, func() bool {
			binds = append(binds, append([]interface{}(nil), vals...))
			return true
		})
		c := &c13case{src: p.Src, vars: p.Vars, binds: binds, what: "structural"}
		for _, o := range opts {
			c13Round(r, hs[w], c, o, &stats)
		}
		if i%2003 == 0 {
			r.Sample(16, map[string]interface{}{"program": p.Src})
		}
	})
	r.Cov["compilations"] = stats[0]
	r.Cov["round_trips"] = stats[1]
	r.Add(stats[1], stats[0]+stats[2], stats[1], stats[2]+stats[0], special)
	r.Finish()
}
