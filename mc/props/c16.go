package props

import (
	eval "github.com/onheap/eval"

	"fmt"
	"sort"
	"strings"
	"sync/atomic"

	"verifmc/drive"
	"verifmc/ref"
	"verifmc/rep"
	"verifmc/term"
)

func init() { Registry["C16"] = c16 }

func c16Alphabet() *term.Alphabet {
	return &term.Alphabet{
		Leaves: map[term.Ty][]*term.Term{
			B: {term.Var("b", B), term.Const(true)},
			I: {term.Var("n", I), term.Const(1)},
		},
		Ops: []term.OpSig{
			sig("and", B, B, B), sig("and", B, B, B, B), sig("or", B, B, B), sig("or", B, B, B, B),
			sig("not", B, B), sig("p", B, B),
			{Name: "if", Args: []term.Ty{B, B, B}, Ret: B, If: true},
			sig("=", B, I, I), sig("<", B, I, I),
		},
	}
}

func isBoolNode(t *term.Term) bool {
	return t.K == term.KOp && (term.IsAnd(t.Name) || term.IsOr(t.Name))
}

// canonKey: structural key in which the operand lists of and/or are sorted
// (so it is invariant under exactly the permutations Reordering may apply).
func canonKey(t *term.Term) string {
	switch t.K {
	case term.KConst:
		return fmt.Sprintf("#%v", t.Val)
	case term.KVar:
		return "$" + t.Name
	}
	ks := make([]string, len(t.Kids))
	for i, k := range t.Kids {
		ks[i] = canonKey(k)
	}
	if isBoolNode(t) {
		sort.Strings(ks)
	}
	return "(" + t.Name + " " + strings.Join(ks, " ") + ")"
}

// boolOrders maps every and/or node (by canonKey) to the canonKeys of its
// operands in the order the tree has them.
func boolOrders(t *term.Term, into map[string][]*term.Term) {
	t.Walk(func(n *term.Term) {
		if isBoolNode(n) {
			into[canonKey(n)] = n.Kids
		}
	})
}

// mentions: does t mention the cost-map entry `name`? For the class entries
// "variable"/"operator" that means: contains a variable/operator that has
// no entry of its own.
func mentions(t *term.Term, name string, priced map[string]float64) bool {
	m := false
	t.Walk(func(n *term.Term) {
		switch n.K {
		case term.KVar:
			if n.Name == name {
				m = true
			}
			if name == "variable" {
				if _, own := priced[n.Name]; !own {
					m = true
				}
			}
		case term.KOp:
			if n.Name == name {
				m = true
			}
			if name == "operator" {
				if _, own := priced[n.Name]; !own {
					m = true
				}
			}
		}
	})
	return m
}

// shape: t with every variable replaced by its individual price (or "v" if
// it has none): equal shapes have equal estimated cost whatever the formula.
func shape(t *term.Term, priced map[string]float64) string {
	switch t.K {
	case term.KConst:
		return fmt.Sprintf("#%v", t.Val)
	case term.KVar:
		if c, ok := priced[t.Name]; ok {
			return fmt.Sprintf("v@%v", c)
		}
		return "v"
	}
	ks := make([]string, len(t.Kids))
	for i, k := range t.Kids {
		ks[i] = shape(k, priced)
	}
	return "(" + t.Name + " " + strings.Join(ks, " ") + ")"
}

type c16ctx struct {
	r   *rep.Run
	h   *drive.Harness
	p   *Prog
	o   drive.Opt // other optimisation flags (RO is set by the helper)
	off *term.Term
	n   *int64
	// alias: the second variable of the first same-typed pair is registered
	// under the KEY of the first (two names for one slot); costs are per name
	alias bool
	// how the config comes about: 0 built directly; 2 = the costs (and options)
	// sit in a base config that knows no variable or operator yet, the config
	// used is NewConfig(ExtendConf(base)) with names registered afterwards
	how int
}

// c16Tree compiles p with Reordering on under the cost map and returns the
// parsed Dump tree.
func (c *c16ctx) tree(costs map[string]float64, ro bool) *term.Term {
	o := c.o
	o.RO = ro
	o.Costs = costs
	cfg := c.h.NewConfig(c.p.Vars, o)
	if c.alias {
	pair:
		for i := range c.p.Vars {
			for j := i + 1; j < len(c.p.Vars); j++ {
				if c.p.Vars[i].Ty == c.p.Vars[j].Ty {
					cfg.VariableKeyMap[c.p.Vars[j].Name] = cfg.VariableKeyMap[c.p.Vars[i].Name]
					break pair
				}
			}
		}
	}
	if c.how == 2 {
		base := eval.NewConfig()
		for k, v := range cfg.CostsMap {
			base.CostsMap[k] = v
		}
		for k, v := range cfg.CompileOptions {
			base.CompileOptions[k] = v
		}
		derived := eval.NewConfig(eval.ExtendConf(base))
		for k, v := range cfg.VariableKeyMap {
			derived.VariableKeyMap[k] = v
		}
		for k, v := range cfg.OperatorMap {
			derived.OperatorMap[k] = v
		}
		for k, v := range cfg.ConstantMap {
			derived.ConstantMap[k] = v
		}
		derived.StatelessOperators = append(derived.StatelessOperators, cfg.StatelessOperators...)
		cfg = derived
	}
	e, err := c.h.Compile(cfg, c.p.Src, 0)
	atomic.AddInt64(c.n, 1)
	if err != nil {
		c.r.Violate("compile", c.p.Src, sprintf("program does not compile under costs %v: %v", costs, err), map[string]interface{}{"source": c.p.Src, "costs": fmt.Sprint(costs)})
		return nil
	}
	t, text, err := dumpTree(e)
	if err != nil {
		c.r.Violate("dump-unreadable", c.p.Src, sprintf("Dump cannot be read back: %v", err), map[string]interface{}{"dump": text})
		return nil
	}
	return t
}

func (c *c16ctx) desc(costs map[string]float64, extra map[string]interface{}) map[string]interface{} {
	m := map[string]interface{}{"source": c.p.Src, "other_options": c.o.String(), "costs": fmt.Sprint(costs), "first_same_typed_variable_pair_shares_one_key": c.alias, "config_derived_from_a_costs_only_base": c.how == 2}
	for k, v := range extra {
		m[k] = v
	}
	return m
}

// checkSingle: confinement + multiset + stability for one cost map.
func (c *c16ctx) checkSingle(costs map[string]float64, on *term.Term) {
	if canonKey(on) != canonKey(c.off) {
		c.r.Violate("not-confined", c.p.Src+fmt.Sprint(costs), "Reordering changed more than the order of and/or operands (operand multiset or a non-and/or operand order differs)",
			c.desc(costs, map[string]interface{}{"reordering_off": c.off.Src(), "reordering_on": on.Src()}))
		return
	}
	offOrders := map[string][]*term.Term{}
	boolOrders(c.off, offOrders)
	onOrders := map[string][]*term.Term{}
	boolOrders(on, onOrders)
	for key, src := range offOrders {
		dst := onOrders[key]
		pos, cnt := map[string]int{}, map[string]int{}
		for i, k := range dst {
			pos[canonKey(k)] = i
			cnt[canonKey(k)]++
		}
		for i := 0; i < len(src); i++ {
			for j := i + 1; j < len(src); j++ {
				if cnt[canonKey(src[i])] > 1 || cnt[canonKey(src[j])] > 1 {
					continue // identical siblings (repeated variables) have no observable position
				}
				if shape(src[i], costs) == shape(src[j], costs) && !classEntry(costs) {
					if pos[canonKey(src[i])] > pos[canonKey(src[j])] {
						c.r.Violate("unstable", c.p.Src+fmt.Sprint(costs), sprintf("operands %s and %s have equal estimated cost but lost their source order", src[i].Src(), src[j].Src()),
							c.desc(costs, map[string]interface{}{"reordering_off": c.off.Src(), "reordering_on": on.Src()}))
						return
					}
				}
			}
		}
	}
}

func classEntry(costs map[string]float64) bool { return false }

// checkPair: the monotonicity laws for two maps that differ only in the
// entry `name` (lo < hi).
func (c *c16ctx) checkPair(name string, mLo, mHi map[string]float64, tLo, tHi *term.Term) {
	lo := map[string][]*term.Term{}
	boolOrders(tLo, lo)
	hi := map[string][]*term.Term{}
	boolOrders(tHi, hi)
	for key, a := range lo {
		b, ok := hi[key]
		if !ok {
			continue // confinement violation reported elsewhere
		}
		posLo, posHi := map[string]int{}, map[string]int{}
		dup := map[string]int{}
		for i, k := range a {
			posLo[canonKey(k)] = i
			dup[canonKey(k)]++
		}
		for i, k := range b {
			posHi[canonKey(k)] = i
		}
		for _, x := range a {
			for _, y := range a {
				kx, ky := canonKey(x), canonKey(y)
				if kx == ky || dup[kx] > 1 || dup[ky] > 1 {
					continue // identical siblings (repeated variables) have no observable position
				}
				mx, my := mentions(x, name, mLo), mentions(y, name, mLo)
				d := func() map[string]interface{} {
					return c.desc(mLo, map[string]interface{}{"raised_entry": name, "from": mLo[name], "to": mHi[name], "order_before": tLo.Src(), "order_after": tHi.Src()})
				}
				if mx && !my && posLo[kx] > posLo[ky] && posHi[kx] < posHi[ky] {
					c.r.Violate("non-monotone", c.p.Src+name, sprintf("raising the cost of %q from %v to %v moved the operand %s (which mentions it) ahead of %s (which does not)", name, mLo[name], mHi[name], x.Src(), y.Src()), d())
					return
				}
				if !mx && !my && (posLo[kx] < posLo[ky]) != (posHi[kx] < posHi[ky]) {
					c.r.Violate("bystanders-reordered", c.p.Src+name, sprintf("changing the cost of %q changed the relative order of %s and %s, neither of which mentions it", name, x.Src(), y.Src()), d())
					return
				}
				if mHi[name] >= 1e9 && mx && !my && posHi[kx] < posHi[ky] {
					c.r.Violate("large-cost-not-last", c.p.Src+name, sprintf("with cost %v for %q the operand %s (mentions it) is still evaluated before %s (does not)", mHi[name], name, x.Src(), y.Src()), d())
					return
				}
			}
		}
	}
}

var c16Ladder = []float64{-100, 0, 0.5, 5, 1e3, 1e9}

func c16(r *rep.Run) {
	max := 6
	r.SetBudget(300e9)
	if r.Thorough() {
		max = 8
		r.SetBudget(1800e9)
	}
	r.Rule = "every and/or/not/if/compare/registered-operator tree up to the node bound with pairwise distinct variables (incl. a zero-operand registered operator and string literals spelled like priced names) and with every two same-typed variables merged into one (repeated mentions), plus wide and/or nodes of 2..40 operands (flat and produced by flattening) with tied costs; cost maps: every single entry (each variable, each operator name, the `variable` and `operator` class defaults) at every rung of the ladder {-100, 0, 0.5, 5, 1e3, 1e9}, alone and next to one other priced name (at -100, 1e3 and, for the first name, 5e6), and EVERY pair of maps differing in that one entry (lo < hi); other optimisations all off and all on, and (trees below the node bound) with two variable names registered under ONE key. Oracles on the parsed Dump trees: (a) Reordering-on tree == Reordering-off tree up to permutation of and/or operand lists only; (b) siblings of identical shape after replacing variables by their price keep source order (stability, no cost formula needed); (c) raising an entry never moves an operand mentioning it ahead of a sibling that does not; (d) at 1e9 every mentioning operand follows every non-mentioning one; (e) siblings not mentioning the entry keep their relative order across the two maps. non-trivial = (program, map) pairs in which Reordering actually changed an order"
	r.Assume = []string{"'mentions' means: contains the variable / an application of the operator (for the class defaults: one without an entry of its own)",
		"ladder of 6 cost values, not all float64 values; NaN and infinities are covered under C02 (meaning) only, since the statement's order laws presuppose comparable costs"}
	r.Cov["bounds"] = map[string]int{"max_nodes": max}
	progs := Programs(c16Alphabet(), []term.Ty{B}, max)
	var keep []*Prog
	for _, p := range progs {
		has := false
		p.T.Walk(func(n *term.Term) {
			if isBoolNode(n) {
				has = true
			}
		})
		if has {
			keep = append(keep, p)
		}
	}
	// the same trees with two variables merged into one (a name mentioned by
	// several operands / several times in one operand)
	mergeMax := max - 1
	progs = withMerged(keep, mergeMax)
	{
		n, b := func() *term.Term { return term.KeptVar("n0", I) }, func() *term.Term { return term.KeptVar("b0", B) }
		o := func() *term.Term { return term.Var("b", B) }
		progs = append(progs,
			MkProg(term.Op("and", B, term.Op("=", B, n(), term.Const(1)), o(), term.Op("<", B, n(), term.Const(5)), o())),
			MkProg(term.Op("or", B, term.Op("p", B, b()), o(), term.Op("not", B, b()), o(), b())),
			MkProg(term.Op("and", B, term.Op("<", B, n(), term.Var("n", I)), term.Op("=", B, term.Var("n", I), term.Const(2)), o(), term.Op("=", B, n(), n()))),
			MkProg(term.Op("and", B, term.Op("or", B, b(), o()), o(), term.Op("or", B, o(), b()))))
	}
	// string literals spelled like names that can be priced (a literal mentions nothing)
	{
		sv := func() *term.Term { return term.Var("s", term.TS) }
		o := func() *term.Term { return term.Var("b", B) }
		nv := func() *term.Term { return term.Var("n", I) }
		progs = append(progs,
			MkProg(term.Op("and", B, term.Op("=", B, sv(), term.Const("tag")), term.Op("=", B, nv(), term.Const(1)), o())),
			MkProg(term.Op("or", B, o(), term.Op("=", B, sv(), term.Const("tag")), term.Op("=", B, sv(), term.Const("other")))),
			MkProg(term.Op("and", B, term.Op("=", B, term.Const("tag"), term.Const("tag")), o(), term.Op("not", B, term.Op("=", B, sv(), term.Const("variable"))))),
			MkProg(term.Op("and", B, term.Op("=", B, sv(), term.Const("operator")), term.Op("p", B, o()), term.Op("=", B, sv(), term.Const("p")))))
		// a zero-operand registered operator (it can be priced like any other)
		z := func() *term.Term { return term.Op("t0", B) }
		progs = append(progs,
			MkProg(term.Op("and", B, z(), o(), o())),
			MkProg(term.Op("or", B, o(), z(), term.Op("p", B, o()))),
			MkProg(term.Op("and", B, o(), term.Op("not", B, z()), o())),
			MkProg(term.Op("and", B, term.Op("or", B, z(), o()), o(), term.Op("p", B, z()))),
			MkProg(term.Op("or", B, term.Op("=", B, nv(), term.Const(1)), z())))
	}
	// variadic operators that are NOT and/or (xor, n-ary =, +, a registered
	// variadic one): their operand order is never touched, whatever the costs
	{
		o := func() *term.Term { return term.Var("b", B) }
		nv := func() *term.Term { return term.Var("n", I) }
		cmp := func() *term.Term { return term.Op("=", B, nv(), term.Const(1)) }
		progs = append(progs,
			MkProg(term.Op("xor", B, cmp(), o(), term.Op("p", B, o()))),
			MkProg(term.Op("xor", B, o(), term.Op("not", B, o()), cmp(), o())),
			MkProg(term.Op("xor", B, term.Op("p", B, o()), o())),
			MkProg(term.Op("and", B, term.Op("xor", B, cmp(), o()), o())),
			MkProg(term.Op("or", B, o(), term.Op("xor", B, term.Op("p", B, o()), o(), o()))),
			MkProg(term.If(term.Op("xor", B, cmp(), o()), o(), o())),
			MkProg(term.Op("xor", B, term.Op("and", B, cmp(), o()), o(), term.Op("or", B, term.Op("p", B, o()), o()))),
			MkProg(term.Op("=", B, term.Op("+", I, term.Op("cat", I, nv(), term.Const(1), nv()), term.Const(2), nv()), nv(), term.Const(3))),
			MkProg(term.Op("and", B, o(), term.Op("=", B, term.Op("cat", I, term.Op("+", I, nv(), nv()), nv(), term.Const(1)), term.Const(4)))))
	}
	// wide families
	for _, k := range []int{2, 3, 5, 8, 11, 12, 13, 14, 16, 20, 25, 33, 40} {
		kids := make([]*term.Term, k)
		for i := range kids {
			if i%3 == 2 {
				kids[i] = term.Op("not", B, term.Var("b", B))
			} else {
				kids[i] = term.Var("b", B)
			}
		}
		progs = append(progs, MkProg(term.Op("and", B, kids...)))
		// nested groups that ReduceNesting flattens into one wide node
		half := k / 2
		if half >= 2 {
			g1 := term.Op("or", B, cloneAll(kids[:half])...)
			g2 := term.Op("or", B, cloneAll(kids[half:])...)
			if k-half >= 2 {
				progs = append(progs, MkProg(term.Op("or", B, g1, g2, term.Var("b", B))))
			}
		}
	}
	// operands containing a division or modulo (by a variable, by a constant, by zero)
	{
		v := func(ty term.Ty) *term.Term {
			if ty == B {
				return term.Var("b", B)
			}
			return term.Var("n", I)
		}
		for _, dv := range []string{"/", "%"} {
			for _, divisor := range []*term.Term{v(I), term.Const(3), term.Const(0)} {
				g := term.Op("=", B, term.Op(dv, I, term.Const(10), divisor), term.Const(2))
				progs = append(progs,
					MkProg(term.Op("and", B, v(B), g.Clone(), v(B))),
					MkProg(term.Op("or", B, g.Clone(), v(B), term.Op("<", B, v(I), v(I)))),
					MkProg(term.Op("and", B, v(B), v(B), term.Op("not", B, g.Clone()), v(B))),
					MkProg(term.Op("and", B, term.Op("!=", B, v(I), term.Const(0)), g.Clone())))
			}
		}
	}
	r.Cov["programs"] = len(progs)
	hs := harnesses(r.Workers)
	var compiles, changed, pairs int64
	done := r.ParallelFor(len(progs), func(w, i int) {
		p := progs[i]
		r.Note(w, p.Src)
		// names that can be priced
		nameSet := map[string]bool{"variable": true, "operator": true}
		var names []string
		p.T.Walk(func(n *term.Term) {
			if (n.K == term.KVar || n.K == term.KOp) && !nameSet[n.Name] {
				nameSet[n.Name] = true
				names = append(names, n.Name)
			}
		})
		if len(names) > 9 {
			names = append(names[:5], names[len(names)-4:]...) // wide families: first and last names
		}
		// the TEXT of every string literal is a name too: pricing it must move nothing
		p.T.Walk(func(n *term.Term) {
			if str, isStr := n.Val.(string); n.K == term.KConst && isStr && str != "" && !nameSet[str] && len(names) < 14 {
				nameSet[str] = true
				names = append(names, str)
			}
		})
		// other spellings of the operators that occur: pricing a name the
		// program does not mention must not move anything
		for _, n := range append([]string{}, names...) {
			if c, ok := ref.Alias[n]; ok {
				for a, ca := range ref.Alias {
					if ca == c && a != n && !nameSet[a] && len(names) < 16 {
						nameSet[a] = true
						names = append(names, a)
					}
				}
			}
		}
		sort.Strings(names[len(names)-min2(len(names), 6):])
		names = append(names, "variable", "operator")
		type variant struct {
			o     drive.Opt
			alias bool
			how   int
		}
		variants := []variant{{drive.Opt{}, false, 0}, {drive.Opt{CF: true, RN: true, FE: true}, false, 0}}
		if p.Size < max && len(p.Vars) >= 2 && len(p.Vars) <= 6 {
			variants = append(variants, variant{drive.Opt{}, true, 0})
		}
		if p.Size < max && len(p.Vars) >= 1 {
			// priced names that are NOT registered when the cost map is written:
			// variables resolved by name (undefined-variable mode), and a config
			// derived from a base that holds only the costs
			variants = append(variants, variant{drive.Opt{Undef: 1}, false, 0}, variant{drive.Opt{}, false, 2})
		}
		for _, vr := range variants {
			other := vr.o
			c := &c16ctx{r: r, h: hs[w], p: p, o: other, n: &compiles, alias: vr.alias, how: vr.how}
			c.off = c.tree(nil, false)
			if c.off == nil {
				continue
			}
			base := c.tree(nil, true)
			if base == nil {
				continue
			}
			c.checkSingle(map[string]float64{}, base)
			if base.Src() != c.off.Src() {
				atomic.AddInt64(&changed, 1)
			}
			// contexts: no other priced name, or one other name priced low/high
			type ctxm map[string]float64
			contexts := []ctxm{{}}
			for k, o := range names {
				if k < 2 || k == len(names)-1 {
					contexts = append(contexts, ctxm{o: -100}, ctxm{o: 1e3})
				}
				if k == 0 {
					contexts = append(contexts, ctxm{o: 5e6}) // another name far more expensive than any default
				}
			}
			for _, name := range names {
				r.Note(w, p.Src+" pricing "+name)
				for _, cx := range contexts {
					if _, clash := cx[name]; clash {
						continue
					}
					trees := make([]*term.Term, len(c16Ladder))
					maps := make([]map[string]float64, len(c16Ladder))
					for li, v := range c16Ladder {
						m := map[string]float64{name: v}
						for k, x := range cx {
							m[k] = x
						}
						maps[li] = m
						trees[li] = c.tree(m, true)
						if trees[li] == nil {
							return
						}
						c.checkSingle(m, trees[li])
						if trees[li].Src() != c.off.Src() {
							atomic.AddInt64(&changed, 1)
						}
					}
					for a := 0; a < len(c16Ladder); a++ {
						for b := a + 1; b < len(c16Ladder); b++ {
							atomic.AddInt64(&pairs, 1)
							c.checkPair(name, maps[a], maps[b], trees[a], trees[b])
						}
					}
				}
			}
		}
		if i%701 == 0 {
			r.Sample(10, map[string]interface{}{"program": p.Src, "priced_names": names})
		}
	})
	r.Cov["programs_completed"] = done
	r.Cov["cost_map_pairs"] = pairs
	r.Add(compiles, compiles+pairs, compiles, compiles, changed)
	r.Finish()
}

func min2(a, b int) int {
	if a < b {
		return a
	}
	return b
}

func cloneAll(ts []*term.Term) []*term.Term {
	out := make([]*term.Term, len(ts))
	for i, t := range ts {
		out[i] = t.Clone()
	}
	return out
}
