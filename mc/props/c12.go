package props

import (
	"fmt"
	"reflect"
	"runtime"
	"strings"
	"sync"
	"sync/atomic"
	"time"
	"unsafe"

	eval "github.com/onheap/eval"

	"verifmc/drive"
	"verifmc/ref"
	"verifmc/rep"
	"verifmc/sched"
	"verifmc/term"
)

func init() { Registry["C12"] = c12 }

// Events alphabet: RICH with a binary int custom operator (d) and a ternary
// one (h) so that the two-slot parameter buffer, the fast path and the
// n-ary path all emit OP_EXEC events with observable arguments.
func eventsAlphabet() *term.Alphabet {
	return &term.Alphabet{
		Leaves: map[term.Ty][]*term.Term{
			B: {term.Const(true), term.Var("b", B)},
			I: {term.Const(1), term.Var("n", I)},
		},
		Ops: []term.OpSig{
			sig("and", B, B, B), sig("or", B, B, B),
			sig("not", B, B),
			{Name: "if", Args: []term.Ty{B, I, I}, Ret: I, If: true},
			sig("=", B, I, I),
			sig("-", I, I, I),
			sig("/", I, I, I),
			sig("+", I, I, I, I),
			sig("p", B, B),
			sig("q", B, B, B),
			sig("d", I, I, I),
			sig("h", B, B, B, B),
			sig("boom", B),
			sig("bv", I, I),
			sig("ri", I, I),
		},
	}
}

func isBoolOpName(n string) bool { return term.IsAnd(n) || term.IsOr(n) }

func sliceRange(s []eval.Value) (lo, hi uintptr) {
	if len(s) == 0 {
		return 0, 0
	}
	p := uintptr(unsafe.Pointer(unsafe.SliceData(s)))
	return p, p + uintptr(len(s))*unsafe.Sizeof(s[0])
}

func c12(r *rep.Run) {
	max := 6
	r.SetBudget(300e9)
	if r.Thorough() {
		max = 7
		r.SetBudget(1800e9)
	}
	r.Rule = "every program up to the node bound over an alphabet with unary/binary/ternary registered operators and fast/binary/n-ary builtins x 16 optimisation subsets x {ReportEvent, Debug, both} x every binding incl. fetch failures x {Eval, TryEval}; events are read only AFTER the evaluation has finished and are kept and re-read after the NEXT evaluation of the same compiled program (the most retentive consumer). Oracles: result and Dump equal the event-free compilation; OP_EXEC events of registered operators equal the harness's own call log taken at call time (name, arguments, result, error, order); OP_EXEC events of builtins other than and/or equal the application sequence of reference evaluation (R1) of the Dump tree (Eval mode); every OP_EXEC event is truthful (Res/Err is what the operator gives on Params); LOOP positions strictly increase; no two events' Stack/Params slices share memory; every value on a LOOP stack was produced earlier in this evaluation. Plus: a scribbling synchronous consumer must not change results, and every consumer timing (scheduler: consumer takes each event at any callback point after its emission) sees the ground truth; the slowest consumer on channels of capacity 0..3 (takes one event only when the evaluator is blocked in its send) receives every event; contexts built by NewCtxFromVars (each single variable left unbound, undefined-variable mode off/on) give the same outcome with and without events. non-trivial = executions with at least two OP_EXEC events"
	r.Assume = []string{"IsFastOp and the exact set of LOOP events are not asserted (the statement does not define them)",
		"consumer timings below callback granularity are represented by the two extremes: reading at the very end (exhaustive) and a free-running scribbling synchronous consumer (auxiliary)"}
	r.Cov["bounds"] = map[string]int{"max_nodes": max}
	progs := Programs(eventsAlphabet(), []term.Ty{B, I}, max)
	r.Cov["programs"] = len(progs)
	hs := harnesses(r.Workers)
	for _, h := range hs {
		h.ScribbleArgs = true // registered operators overwrite their argument slice before returning
	}
	var multiOp int64
	done := r.ParallelFor(len(progs), func(w, i int) {
		p := progs[i]
		h := hs[w]
		r.Note(w, p.Src)
		plain := compileAll(r, h, p, optMatrix(0))
		evented := compileAll(r, h, p, optMatrix(1, 2, 3))
		if len(plain) != 16 || len(evented) != 48 {
			return
		}
		trees := make([]*term.Term, 16)
		for k := range plain {
			t, _, err := dumpTree(plain[k].e)
			if err != nil {
				r.Violate("dump-unreadable", p.Src, sprintf("Dump output cannot be read back: %v", err), caseDesc(p.Src, plain[k].o, nil, nil, nil, nil))
				return
			}
			trees[k] = t
		}
		consts := map[string]bool{}
		addConsts := func(t *term.Term) {
			t.Walk(func(n *term.Term) {
				if n.K == term.KConst {
					consts[fmt.Sprintf("%T:%v", n.Val, n.Val)] = true
				}
			})
		}
		addConsts(p.T)
		for _, t := range trees {
			addConsts(t) // folded constants of the optimised programs
		}
		for k := range evented {
			c := &evented[k]
			pl := &plain[c.o.OptBits()]
			var dumpEv, dumpPl string
			drive.Fence(func() { dumpEv = eval.Dump(c.e); dumpPl = eval.Dump(pl.e) })
			if dumpEv != dumpPl {
				r.Violate("dump-changed", p.Src+c.o.String(), "enabling events changes the decompiled program", caseDesc(p.Src, c.o, nil, nil, nil, map[string]interface{}{"with_events": dumpEv, "without": dumpPl}))
			}
		}
		vals := make([]interface{}, len(p.Vars))
		var nb, tr, ex, nt int64
		// events of the PREVIOUS evaluation of each compiled program are
		// retained and re-read after the next one (a consumer may keep them)
		kept := make([][]eval.Event, len(evented))
		keptSnap := make([][]string, len(evented))
		drive.ForBindings(Doms(p.Vars, true), vals, func() bool {
			nb++
			if nb%512 == 0 {
				r.Note(w, p.Src) // progress within one program (many bindings)
			}
			for mode := 0; mode < 3; mode++ { // 0 Eval, 1 TryEval (all available), 2 TryEval (first variable unavailable)
				if mode == 2 && (len(p.Vars) == 0 || vals[0] == interface{}(ref.ErrFetch)) {
					continue
				}
				for k := range evented {
					c := &evented[k]
					pl := &plain[c.o.OptBits()]
					copy(pl.f.Vals, vals)
					copy(c.f.Vals, vals)
					pl.f.Avail, c.f.Avail = nil, nil
					if mode == 2 {
						av := make([]bool, len(p.Vars))
						for x := range av {
							av[x] = x != 0
						}
						pl.f.Avail, c.f.Avail = av, av
					}
					h.Reset()
					var want drive.Out
					if mode == 0 {
						want = h.Eval(pl.e, pl.f)
					} else {
						want = h.TryEval(pl.e, pl.f)
					}
					h.Reset()
					var got drive.Out
					if mode == 0 {
						got = h.Eval(c.e, c.f)
					} else {
						got = h.TryEval(c.e, c.f)
					}
					ex += 2
					tr += int64(len(h.Events)) + 1
					d := func(extra map[string]interface{}) map[string]interface{} {
						m := caseDesc(p.Src, c.o, p.Vars, vals, nil, extra)
						m["entry"] = []string{"Eval", "TryEval", "TryEval with the first variable unavailable"}[mode]
						return m
					}
					if !drive.SameOutcome(got, want) {
						r.Violate("result-changed", p.Src+c.o.String(), sprintf("with events the result is %s, without %s", got, want), d(nil))
						continue
					}
					// a failing evaluation may hand back a value next to its error:
					// that value, too, is part of the result
					if got.Err != nil && want.Err != nil && fmt.Sprintf("%T:%v", got.Val, got.Val) != fmt.Sprintf("%T:%v", want.Val, want.Val) {
						r.Violate("result-changed", p.Src+c.o.String()+"val", sprintf("with events the failing evaluation returns the value %v next to its error, without events %v", got.Val, want.Val), d(nil))
						continue
					}
					for x, ev := range kept[k] {
						if now := deepCopyEvent(ev); now != keptSnap[k][x] {
							r.Violate("retained-event-changed", p.Src+c.o.String(), "an event retained from the previous evaluation of the same program changed during this evaluation", d(map[string]interface{}{"event_was": keptSnap[k][x], "event_is": now}))
							break
						}
					}
					kept[k] = append(kept[k][:0], h.Events...)
					keptSnap[k] = keptSnap[k][:0]
					for _, ev := range h.Events {
						keptSnap[k] = append(keptSnap[k], deepCopyEvent(ev))
					}
					// --- events, read after the evaluation finished ---
					var opEvents []eval.OpEventData
					last := int16(-1)
					produced := map[string]bool{}
					for _, ev := range h.Trace {
						if ev.Err == nil {
							produced[fmt.Sprintf("%T:%v", ev.Res, ev.Res)] = true
						}
					}
					type rng struct{ lo, hi uintptr }
					var ranges []rng
					overlap := false
					addRange := func(s []eval.Value) {
						lo, hi := sliceRange(s)
						if lo == hi {
							return
						}
						for _, x := range ranges {
							if lo < x.hi && x.lo < hi {
								overlap = true
							}
						}
						ranges = append(ranges, rng{lo, hi})
					}
					var expectTop *eval.Value
					expectWhat := ""
					for _, ev := range h.Events {
						switch ev.EventType {
						case eval.LoopEvent:
							ld, ok := ev.Data.(eval.LoopEventData)
							if !ok {
								r.Violate("loop-data", p.Src, "LOOP event without LoopEventData", d(nil))
								continue
							}
							if ld.CurtIdx <= last {
								r.Violate("loop-order", p.Src+c.o.String(), sprintf("LOOP positions do not strictly increase (%d after %d)", ld.CurtIdx, last), d(nil))
							}
							last = ld.CurtIdx
							addRange(ev.Stack)
							// the snapshot is the operand stack of THAT moment: what the
							// previous step produced (an operator's result, a constant) is on
							// top of it, whatever jump was taken in between
							if expectTop != nil {
								if len(ev.Stack) == 0 || !ref.ValEqual(ev.Stack[len(ev.Stack)-1], *expectTop) {
									r.Violate("loop-stack-stale", p.Src+c.o.String(), sprintf("LOOP event at position %d shows the stack %v, but the step before it (%s) left %v on top", ld.CurtIdx, ev.Stack, expectWhat, *expectTop), d(map[string]interface{}{"stack": fmt.Sprint(ev.Stack)}))
								}
								expectTop = nil
							}
							if ld.NodeType == eval.ConstantNode {
								v := ld.NodeValue
								expectTop, expectWhat = &v, "the constant at the previous position"
							}
							for _, v := range ev.Stack {
								key := fmt.Sprintf("%T:%v", v, v)
								if isDNE(v) {
									continue // the value of an unavailable variable
								}
								if !consts[key] && !produced[key] && !producedByOps(opEvents, v) {
									r.Violate("loop-stack-garbage", p.Src+c.o.String(), sprintf("LOOP event at position %d shows stack value %v that nothing in this evaluation produced", ld.CurtIdx, v), d(map[string]interface{}{"stack": fmt.Sprint(ev.Stack)}))
								}
							}
						case eval.OpExecEvent:
							od, ok := ev.Data.(eval.OpEventData)
							if !ok {
								r.Violate("op-data", p.Src, "OP_EXEC event without OpEventData", d(nil))
								continue
							}
							opEvents = append(opEvents, od)
							addRange(od.Params)
							expectTop = nil
							if od.Err == nil {
								v := od.Res
								expectTop, expectWhat = &v, "operator "+od.OpName
							}
						default:
							r.Violate("event-type", p.Src, sprintf("unknown event type %q", ev.EventType), d(nil))
						}
					}
					if overlap {
						r.Violate("event-aliasing", p.Src+c.o.String(), "two events share the memory of their Stack/Params slices", d(nil))
					}
					if len(opEvents) >= 2 {
						nt++
						atomic.AddInt64(&multiOp, 1)
					}
					// registered operators: events == ground truth call log
					var custom []ref.Ev
					for _, e := range h.Trace {
						if !e.Get {
							custom = append(custom, e)
						}
					}
					ci := 0
					for _, od := range opEvents {
						args := make([]interface{}, len(od.Params))
						for x, v := range od.Params {
							args[x] = v
						}
						evv := ref.Ev{Name: od.OpName, Args: args, Res: od.Res, Err: od.Err}
						if _, isCustom := ref.Customs[od.OpName]; isCustom {
							if ci >= len(custom) || !ref.EvEqual(custom[ci], evv) {
								wantS := "nothing"
								if ci < len(custom) {
									wantS = custom[ci].String()
								}
								r.Violate("opexec-registered", p.Src+c.o.String(), sprintf("OP_EXEC event %s does not match the operator call the harness observed (%s)", evv, wantS), d(map[string]interface{}{"events": opEventStr(opEvents), "calls": traceStr(custom)}))
								ci = len(custom) + 1
								break
							}
							ci++
							continue
						}
						// builtin: truthful?
						wantRes, wantErr := ref.Builtin(od.OpName, args)
						if wantErr == ref.ErrUndefined {
							continue
						}
						if (wantErr != nil) != (od.Err != nil) || (wantErr == nil && !ref.ValEqual(wantRes, od.Res)) {
							r.Violate("opexec-untruthful", p.Src+c.o.String(), sprintf("OP_EXEC event %s: %s applied to these arguments gives %v/%v", evv, od.OpName, wantRes, wantErr), d(map[string]interface{}{"events": opEventStr(opEvents)}))
						}
					}
					if ci < len(custom) {
						r.Violate("opexec-missing", p.Src+c.o.String(), sprintf("the harness observed %d registered-operator calls but only %d OP_EXEC events report them", len(custom), ci), d(map[string]interface{}{"events": opEventStr(opEvents), "calls": traceStr(custom)}))
					}
					// builtins other than and/or == R1 application sequence on the Dump tree (Eval mode)
					if mode == 0 {
						env := envFor(p.Vars, vals)
						env.LogApps = true
						if c.o.FE {
							env.Paired = func(*term.Term) bool { return true }
						}
						env.Eval(trees[c.o.OptBits()])
						var wantApps, gotApps []ref.Ev
						undefinedApp := false
						for _, a := range env.Apps {
							if a.Err == ref.ErrUndefined {
								undefinedApp = true // the reference does not define this application (a value of a foreign Go type)
							}
							if !isBoolOpName(a.Name) {
								wantApps = append(wantApps, a)
							}
						}
						for _, od := range opEvents {
							if !isBoolOpName(od.OpName) {
								args := make([]interface{}, len(od.Params))
								for x, v := range od.Params {
									args[x] = v
								}
								gotApps = append(gotApps, ref.Ev{Name: od.OpName, Args: args, Res: od.Res, Err: od.Err})
							}
						}
						if !undefinedApp && !appsEqual(gotApps, wantApps) {
							r.Violate("opexec-sequence", p.Src+c.o.String(), "the OP_EXEC events are not exactly the operator applications of this evaluation", d(map[string]interface{}{"events": traceStr(gotApps), "applications": traceStr(wantApps)}))
						}
					}
				}
			}
			return true
		})
		r.Add(nb, tr, ex/2, ex, nt)
		if i%1499 == 0 {
			r.Sample(10, map[string]interface{}{"program": p.Src, "bindings": nb})
		}
	})
	r.Cov["programs_completed"] = done
	r.Cov["executions_with_two_or_more_op_events"] = multiOp

	// compile-only: the decompiled program with and without events over a larger
	// corpus (the optimiser must not see whether events are on)
	{
		dAlpha := &term.Alphabet{
			Leaves: map[term.Ty][]*term.Term{B: {term.Var("b", B)}, I: {term.Var("n", I)}},
			Ops: []term.OpSig{sig("and", B, B, B), sig("or", B, B, B, B), sig("not", B, B), sig("xor", B, B, B, B), sig("=", B, I, I), sig("+", I, I, I, I),
				{Name: "if", Args: []term.Ty{B, B, B}, Ret: B, If: true}},
		}
		dMax := 9
		if r.Thorough() {
			dMax = 10
		}
		var big []*Prog
		for _, p := range Programs(dAlpha, []term.Ty{B}, dMax) {
			if p.Size > max && (strings.HasPrefix(p.Src, "(and") || strings.HasPrefix(p.Src, "(or")) {
				big = append(big, p)
			}
		}
		var cmp int64
		r.ParallelFor(len(big), func(w, i int) {
			p := big[i]
			h := hs[w]
			r.Note(w, p.Src)
			for _, b := range []int{8, 15, 10} {
				var texts [4]string
				for ev := 0; ev < 4; ev++ {
					o := drive.FromBits(b)
					o.Events = ev
					e, err := h.Compile(h.NewConfig(p.Vars, o), p.Src, 0)
					if err != nil {
						r.Violate("compile", p.Src, sprintf("program does not compile under %s: %v", o, err), nil)
						return
					}
					drive.Fence(func() { texts[ev] = eval.Dump(e) })
				}
				atomic.AddInt64(&cmp, 3)
				if texts[1] != texts[0] || texts[2] != texts[0] || texts[3] != texts[0] {
					r.Violate("dump-changed", p.Src+drive.FromBits(b).String(), "enabling events changes the decompiled program", map[string]interface{}{"source": p.Src, "config": drive.FromBits(b).String(), "plain": texts[0], "report_event": texts[1], "debug": texts[2], "both": texts[3]})
				}
			}
		})
		r.Cov["dump_equality_only_programs"] = len(big)
		r.Add(int64(len(big)), cmp, cmp, cmp, 0)
	}
	fmt.Printf("programs done at %.1fs\n", time.Since(r.Start).Seconds())
	c12Scribble(r)
	fmt.Printf("scribble done at %.1fs\n", time.Since(r.Start).Seconds())
	c12Schedules(r)
	c12SlowConsumer(r)
	c12LibraryCtx(r)
	c12ReplacedChannel(r)
	fmt.Printf("schedules done at %.1fs\n", time.Since(r.Start).Seconds())
	r.Finish()
}

func producedByOps(ops []eval.OpEventData, v interface{}) bool {
	for _, o := range ops {
		if o.Err == nil && ref.ValEqual(o.Res, v) {
			return true
		}
	}
	return false
}

func opEventStr(ops []eval.OpEventData) []string {
	out := make([]string, len(ops))
	for i, o := range ops {
		out[i] = fmt.Sprintf("%s%v=%v/%v", o.OpName, o.Params, o.Res, o.Err)
	}
	return out
}

// appsEqual compares application sequences; builtin errors by presence.
func appsEqual(a, b []ref.Ev) bool {
	if len(a) != len(b) {
		return false
	}
	for i := range a {
		x, y := a[i], b[i]
		if ref.Alias[x.Name] != ref.Alias[y.Name] && x.Name != y.Name {
			return false
		}
		if len(x.Args) != len(y.Args) || (x.Err != nil) != (y.Err != nil) {
			return false
		}
		if drive.IsSentinel(x.Err) || drive.IsSentinel(y.Err) {
			if x.Err != y.Err {
				return false
			}
		}
		for k := range x.Args {
			if !ref.ValEqual(x.Args[k], y.Args[k]) {
				return false
			}
		}
		if x.Err == nil && !ref.ValEqual(x.Res, y.Res) {
			return false
		}
	}
	return true
}

// ---- fixed corpus for consumer-timing explorations ----

type c12prog struct {
	src  string
	vars []term.VarDecl
	vals []interface{}
	opt  drive.Opt
}

func c12Corpus() []c12prog {
	on := drive.Opt{CF: true, RN: true, FE: true, RO: true}
	var out []c12prog
	for _, ev := range []int{1, 2} {
		for _, o := range []drive.Opt{{}, on} {
			o.Events = ev
			out = append(out,
				c12prog{"(+ (- n0 n1) (- n2 n3))", c7vars("n0", "n1", "n2", "n3"), i64(5, 3, 10, 4), o},
				c12prog{"(d (d n0 n1) (- (g n2) n3))", c7vars("n0", "n1", "n2", "n3"), i64(1, 2, 3, 4), o},
				c12prog{"(and (q b0 b1) (h b2 (p b3) b0) (= (d n4 n5) 12))", c7vars("b0", "b1", "b2", "b3", "n4", "n5"), []interface{}{true, false, true, false, int64(1), int64(2)}, o},
				c12prog{"(if (= (- n0 n1) (- n1 n0)) (+ n0 n1 n2) (d (- n2 n0) (- n2 n1)))", c7vars("n0", "n1", "n2"), i64(7, 2, 9), o},
			)
		}
	}
	return out
}

func deepCopyEvent(ev eval.Event) string {
	return fmt.Sprintf("%s|%v|%+v", ev.EventType, ev.Stack, ev.Data)
}

// c12Scribble: a synchronous consumer (unbuffered channel, own goroutine)
// that overwrites the Stack and Params of every event it receives; with
// private copies this cannot influence the evaluation.
func c12Scribble(r *rep.Run) {
	h := drive.NewHarness()
	n := 0
	for _, p := range c12Corpus() {
		for mode := 0; mode < 2; mode++ {
			plainOpt := p.opt
			plainOpt.Events = 0
			cfg := h.NewConfig(p.vars, plainOpt)
			pe, err := h.Compile(cfg, p.src, 0)
			if err != nil {
				r.Violate("compile", p.src, sprintf("corpus program does not compile: %v", err), nil)
				continue
			}
			f := drive.NewFetcher(h, p.vars, plainOpt)
			copy(f.Vals, p.vals)
			h.Reset()
			var want drive.Out
			if mode == 0 {
				want = h.Eval(pe, f)
			} else {
				want = h.TryEval(pe, f)
			}
			cfg = h.NewConfig(p.vars, p.opt)
			e, err := h.Compile(cfg, p.src, 0)
			if err != nil {
				r.Violate("compile", p.src, sprintf("corpus program does not compile with events: %v", err), nil)
				continue
			}
			for rep := 0; rep < 20; rep++ {
				e.EventChan = make(chan eval.Event) // unbuffered: synchronous consumer
				var wg sync.WaitGroup
				wg.Add(1)
				go func() {
					defer wg.Done()
					for ev := range e.EventChan {
						for i := range ev.Stack {
							ev.Stack[i] = "SCRIBBLE"
						}
						if od, ok := ev.Data.(eval.OpEventData); ok {
							for i := range od.Params {
								od.Params[i] = "SCRIBBLE"
							}
						}
					}
				}()
				h.Reset()
				var got drive.Out
				if mode == 0 {
					got = h.Eval(e, f)
				} else {
					got = h.TryEval(e, f)
				}
				close(e.EventChan)
				wg.Wait()
				n++
				if !drive.SameOutcome(got, want) {
					r.Violate("scribble", p.src+p.opt.String(), sprintf("a consumer that overwrites the Stack/Params it received changes the result: %s instead of %s", got, want), caseDesc(p.src, p.opt, p.vars, p.vals, nil, nil))
					break
				}
			}
		}
	}
	r.Cov["scribbling_synchronous_consumer_runs"] = n
	r.Add(0, int64(n), 0, int64(n), 0)
}

// c12Schedules: evaluator thread + consumer thread under the cooperative
// scheduler. The consumer is enabled whenever the (large) channel is
// non-empty; at each of its turns it takes ONE event, snapshots it and keeps
// the original. Every interleaving = every monotone assignment of "when the
// consumer looks at event k" to the callback points after its emission.
func c12Schedules(r *rep.Run) {
	corpus := c12Corpus()
	bound := 4
	if r.Thorough() {
		bound = 8
	}
	r.Cov["consumer_timing_preemption_bound"] = bound
	var schedules, points int64
	var mu sync.Mutex
	r.ParallelFor(len(corpus)*2, func(w, j int) {
		p := corpus[j/2]
		mode := j % 2
		r.Note(w, sprintf("consumer timings %s %s", p.src, p.opt))
		h := drive.NewHarness()
		var cur *sched.Sched
		h.OpHook = func(name string, live []eval.Value) {
			if cur != nil {
				cur.Point("op:" + name)
			}
		}
		var e *eval.Expr
		var taken []eval.Event
		var snaps []string
		var out drive.Out
		var evalDone bool
		run := func(prefix []int) *sched.Sched {
			cfg := h.NewConfig(p.vars, p.opt)
			e, _ = h.Compile(cfg, p.src, 4096)
			f := drive.NewFetcher(h, p.vars, p.opt)
			copy(f.Vals, p.vals)
			f.Hook = func(kind, name string) {
				if cur != nil {
					cur.Point(kind + ":" + name)
				}
			}
			taken, snaps, evalDone = nil, nil, false
			h.Reset()
			bodies := []sched.Body{
				{Run: func() {
					cur.Point("call")
					ctx := &eval.Ctx{VariableFetcher: f}
					var v eval.Value
					var err error
					if mode == 0 {
						v, err = e.Eval(ctx)
					} else {
						v, err = e.TryEval(ctx)
					}
					out = drive.Out{Val: v, Err: err}
					evalDone = true
					cur.Point("return")
				}},
				{Enabled: func() bool { return len(e.EventChan) > 0 || evalDone },
					Run: func() {
						for {
							cur.Point("consumer")
							if len(e.EventChan) == 0 {
								if evalDone {
									return
								}
								continue
							}
							// one consumer turn: look at everything delivered so far
							for len(e.EventChan) > 0 {
								ev := <-e.EventChan
								taken = append(taken, ev)
								snaps = append(snaps, deepCopyEvent(ev))
							}
						}
					}},
			}
			s := sched.RunWith(bodies, prefix, nil, func(s *sched.Sched) { cur = s })
			cur = nil
			return s
		}
		var refSnaps []string
		nsched := 0
		st := sched.Explore(bound, 300000, run, func(s *sched.Sched) bool {
			if nsched++; nsched%256 == 0 {
				r.Note(w, sprintf("consumer timings %s schedule #%d", p.src, nsched))
			}
			d := func() map[string]interface{} {
				return map[string]interface{}{"program": p.src, "config": p.opt.String(), "entry": []string{"Eval", "TryEval"}[mode], "schedule": s.Choices()}
			}
			if s.Diverged != "" || s.Deadlock || s.Overrun {
				r.Violate("schedule-nondeterminism", p.src, "consumer schedule diverged/deadlocked: "+s.Diverged, d())
				return false
			}
			// retained originals must still equal the snapshot taken when the consumer first saw them
			for k, ev := range taken {
				if now := deepCopyEvent(ev); now != snaps[k] {
					m := d()
					m["event_index"], m["when_taken"], m["at_end"] = k, snaps[k], now
					r.Violate("event-changed-after-delivery", p.src+p.opt.String(), sprintf("event %d changed after the consumer had received it", k), m)
					break
				}
			}
			// every timing must see the same event contents
			if refSnaps == nil {
				refSnaps = append([]string(nil), snaps...)
			} else if !reflect.DeepEqual(refSnaps, snaps) {
				m := d()
				m["this_timing"], m["first_timing"] = snaps, refSnaps
				r.Violate("event-depends-on-timing", p.src+p.opt.String(), "what the consumer sees in an event depends on when it reads it", m)
			}
			_ = out
			return true
		})
		// ground truth for the events every timing agreed on: harness call log
		mu.Lock()
		schedules += int64(st.Schedules)
		points += int64(st.Points)
		if !st.Exhaustive {
			r.Capped("a C12 consumer-timing exploration hit its execution cap")
		}
		mu.Unlock()
	})
	r.Cov["consumer_timing_schedules"] = schedules
	r.Add(schedules, points, schedules, schedules, 0)
	r.Sample(12, map[string]interface{}{"consumer_timing_harness": corpus[0].src, "note": "consumer thread takes each event at every possible callback point after its emission"})
}

// goid parses the current goroutine's id from its stack header.
func goid() string {
	buf := make([]byte, 64)
	buf = buf[:runtime.Stack(buf, false)]
	f := strings.Fields(string(buf))
	if len(f) >= 2 {
		return f[1]
	}
	return "?"
}

// goState returns the scheduler state of goroutine id ("chan send",
// "running", ...), or "" if it no longer exists.
func goState(id string) string {
	buf := make([]byte, 1<<20)
	buf = buf[:runtime.Stack(buf, true)]
	marker := "goroutine " + id + " ["
	i := strings.Index(string(buf), marker)
	if i < 0 {
		return ""
	}
	rest := string(buf[i+len(marker):])
	if j := strings.IndexAny(rest, "],"); j >= 0 {
		return rest[:j]
	}
	return rest
}

// c12SlowConsumer: the slowest possible consumer on a SMALL channel
// (capacity 0..3): it takes one event only when the evaluating goroutine is
// blocked in its channel send (observed through the runtime's goroutine
// state, no clock involved) or has finished. Every event must still arrive,
// in order and with the contents the unconstrained run delivered.
func c12SlowConsumer(r *rep.Run) {
	h := drive.NewHarness()
	var runs, blockedSends int64
	for _, p := range c12Corpus() {
		for mode := 0; mode < 2; mode++ {
			one := func(capacity int) ([]string, drive.Out, bool) {
				cfg := h.NewConfig(p.vars, p.opt)
				e, err := h.Compile(cfg, p.src, capacity)
				if err != nil {
					r.Violate("compile", p.src, sprintf("corpus program does not compile with events: %v", err), nil)
					return nil, drive.Out{}, false
				}
				f := drive.NewFetcher(h, p.vars, p.opt)
				copy(f.Vals, p.vals)
				h.Reset()
				idCh := make(chan string, 1)
				done := make(chan drive.Out, 1)
				go func() {
					idCh <- goid()
					var v eval.Value
					var eerr error
					pn, site := drive.Fence(func() {
						// the library call itself: the harness wrappers would drain the channel
						if mode == 0 {
							v, eerr = e.Eval(&eval.Ctx{VariableFetcher: f})
						} else {
							v, eerr = e.TryEval(&eval.Ctx{VariableFetcher: f})
						}
					})
					done <- drive.Out{Val: v, Err: eerr, Panic: pn, Site: site}
				}()
				id := <-idCh
				var snaps []string
				var out drive.Out
				finished := false
				deadline := time.Now().Add(60 * time.Second)
				for !finished {
					select {
					case out = <-done:
						finished = true
					default:
					}
					if finished {
						break
					}
					if st := goState(id); st == "chan send" {
						blockedSends++
						ev := <-e.EventChan
						snaps = append(snaps, deepCopyEvent(ev))
					} else {
						runtime.Gosched()
					}
					if time.Now().After(deadline) {
						r.Capped("a C12 slow-consumer run did not finish within its horizon")
						return nil, drive.Out{}, false
					}
				}
				for len(e.EventChan) > 0 {
					snaps = append(snaps, deepCopyEvent(<-e.EventChan))
				}
				runs++
				return snaps, out, true
			}
			ref, want, ok := one(4096)
			if !ok {
				continue
			}
			for _, capacity := range []int{0, 1, 2, 3} {
				got, out, ok := one(capacity)
				if !ok {
					continue
				}
				d := caseDesc(p.src, p.opt, p.vars, p.vals, nil, map[string]interface{}{"entry": []string{"Eval", "TryEval"}[mode], "channel_capacity": capacity, "events_with_large_buffer": len(ref), "events_received": len(got)})
				if !drive.SameOutcome(out, want) {
					r.Violate("result-depends-on-consumer", p.src+p.opt.String(), sprintf("with a channel of capacity %d and a slow consumer the result is %s instead of %s", capacity, out, want), d)
				}
				if !reflect.DeepEqual(ref, got) {
					r.Violate("events-lost", p.src+p.opt.String(), sprintf("a slow consumer on a channel of capacity %d receives %d events, the evaluation produced %d (events are missing or differ)", capacity, len(got), len(ref)), d)
				}
			}
		}
	}
	r.Cov["slow_consumer_runs"] = runs
	r.Cov["slow_consumer_sends_observed_blocked"] = blockedSends
	r.Add(0, runs, runs, runs, 0)
}

// c12LibraryCtx: contexts built by the library itself (NewCtxFromVars picks
// the fetcher from the config): for every corpus program x every single
// variable left unbound (and none) x undefined-variable mode off/on x
// {Eval, TryEval}: plain, ReportEvent and Debug compilations, each with the
// context NewCtxFromVars builds for ITS config, give the same outcome.
func c12LibraryCtx(r *rep.Run) {
	h := drive.NewHarness()
	var n int64
	for _, p := range c12Corpus() {
		if p.opt.Events != 1 {
			continue // the corpus lists each program once per event mode; modes are iterated here
		}
		for undef := 0; undef < 2; undef++ {
			for omit := -1; omit < len(p.vars); omit++ {
				vals := map[string]interface{}{}
				for i, v := range p.vars {
					if i != omit {
						vals[v.Name] = p.vals[i]
					}
				}
				for mode := 0; mode < 2; mode++ {
					var outs [3]drive.Out
					for ev := 0; ev < 3; ev++ {
						o := p.opt
						o.Events = ev
						cfg := h.NewConfig(p.vars, o)
						if undef == 1 {
							cfg.CompileOptions[eval.AllowUndefinedVariable] = true
						}
						e, err := h.Compile(cfg, p.src, 4096)
						if err != nil {
							outs[ev] = drive.Out{Err: err}
							continue
						}
						h.Reset()
						var v eval.Value
						var eerr error
						pn, site := drive.Fence(func() {
							ctx := eval.NewCtxFromVars(cfg, vals)
							if mode == 0 {
								v, eerr = e.Eval(ctx)
							} else {
								v, eerr = e.TryEval(ctx)
							}
						})
						n++
						outs[ev] = drive.Out{Val: v, Err: eerr, Panic: pn, Site: site}
					}
					for ev := 1; ev < 3; ev++ {
						if !drive.SameOutcome(outs[ev], outs[0]) {
							omitted := "none"
							if omit >= 0 {
								omitted = p.vars[omit].Name
							}
							r.Violate("result-changed-by-events", p.src+fmt.Sprint(ev, undef), sprintf("with the context NewCtxFromVars builds, %s gives %s instead of %s (unbound variable: %s)", []string{"", "ReportEvent", "Debug"}[ev], outs[ev], outs[0], omitted),
								map[string]interface{}{"source": p.src, "options": p.opt.String(), "bound": fmt.Sprint(vals), "allow_undefined_variable": undef == 1, "entry": []string{"Eval", "TryEval"}[mode]})
						}
					}
				}
			}
		}
	}
	r.Cov["library_context_runs"] = n
	r.Add(0, n, n, n, 0)
}

// c12ReplacedChannel: Expr.EventChan is the caller's field. Histories of up to
// three evaluations (Eval / TryEval) of one compiled program with the channel
// replaced by a fresh one before each: every event of an evaluation arrives on
// the channel installed at that time — the same sequence as on a freshly
// compiled program — and nothing arrives on a channel installed earlier.
func c12ReplacedChannel(r *rep.Run) {
	h := drive.NewHarness()
	var n int64
	for _, p := range c12Corpus() {
		cfg := h.NewConfig(p.vars, p.opt)
		run := func(e *eval.Expr, mode int) (string, []chan eval.Event) {
			ch := make(chan eval.Event, 4096)
			e.EventChan = ch
			f := drive.NewFetcher(h, p.vars, p.opt)
			copy(f.Vals, p.vals)
			var v eval.Value
			var err error
			pn, _ := drive.Fence(func() {
				if mode == 0 {
					v, err = e.Eval(&eval.Ctx{VariableFetcher: f})
				} else {
					v, err = e.TryEval(&eval.Ctx{VariableFetcher: f})
				}
			})
			var sb strings.Builder
			fmt.Fprintf(&sb, "%v/%v/%v", v, err, pn)
			for len(ch) > 0 {
				sb.WriteString("\n" + deepCopyEvent(<-ch))
			}
			return sb.String(), []chan eval.Event{ch}
		}
		// ground truth per entry point: one evaluation on a freshly compiled program
		var truth [2]string
		for mode := 0; mode < 2; mode++ {
			e, err := eval.Compile(cfg, p.src)
			if err != nil {
				r.Violate("compile", p.src, sprintf("does not compile: %v", err), nil)
				return
			}
			truth[mode], _ = run(e, mode)
		}
		for hist := 0; hist < 8; hist++ { // three steps, each Eval or TryEval
			e, err := eval.Compile(cfg, p.src)
			if err != nil {
				continue
			}
			var old []chan eval.Event
			var steps []string
			for step := 0; step < 3; step++ {
				mode := (hist >> step) & 1
				steps = append(steps, []string{"Eval", "TryEval"}[mode])
				got, chs := run(e, mode)
				n++
				d := map[string]interface{}{"source": p.src, "config": p.opt.String(), "history": strings.Join(steps, ", ") + " (a fresh EventChan before each)"}
				if got != truth[mode] {
					r.Violate("replaced-channel", p.src+p.opt.String(), sprintf("after the caller replaced Expr.EventChan, evaluation #%d (%s) delivers other events to the channel now installed than a freshly compiled program does", step+1, steps[step]), map[string]interface{}{"source": p.src, "config": p.opt.String(), "history": d["history"], "got": got, "fresh": truth[mode]})
				}
				for oi, oc := range old {
					if len(oc) > 0 {
						r.Violate("replaced-channel", p.src+p.opt.String()+"old", sprintf("evaluation #%d sent %d event(s) to the channel that was installed for evaluation #%d and has been replaced since", step+1, len(oc), oi+1), d)
						for len(oc) > 0 {
							<-oc
						}
					}
				}
				old = append(old, chs...)
			}
		}
	}
	r.Cov["replaced_channel_evaluations"] = n
	r.Add(0, n, n, n, 0)
}
