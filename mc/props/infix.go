package props

import (
	"strconv"
	"strings"

	"verifmc/term"
)

// infixPrec is the documented precedence of the infix operators
// (* / % over + - over ! over comparisons over && over ||).
func infixPrec(name string) int {
	switch name {
	case "*", "/", "%":
		return 8
	case "+", "-":
		return 7
	case "!":
		return 6
	case "=", "==", "!=", "<", ">", "<=", ">=":
		return 5
	case "&", "&&":
		return 4
	case "|", "||":
		return 3
	}
	return 0
}

func isInfixBinary(t *term.Term) bool {
	return t.K == term.KOp && len(t.Kids) == 2 && infixPrec(t.Name) != 0 && t.Name != "!"
}

func isInfixUnary(t *term.Term) bool {
	return t.K == term.KOp && len(t.Kids) == 1 && t.Name == "!"
}

// termPrec: precedence of the term as an operand (atoms and calls bind
// tightest).
func termPrec(t *term.Term) int {
	if isInfixBinary(t) || isInfixUnary(t) {
		return infixPrec(t.Name)
	}
	return 100
}

// Infix renders t in infix notation.
// style 0: minimal parentheses (from precedence and left associativity),
// single blanks; style 1: every operator application parenthesised;
// style 2: redundant parentheses around atoms and calls as well, wide
// spacing; style 3: minimal parentheses, no blanks next to parens/commas,
// `!ident` written without a blank.
func Infix(t *term.Term, style int) string {
	var sb strings.Builder
	infixR(&sb, t, style, true)
	return sb.String()
}

func infixLit(t *term.Term) string {
	switch v := t.Val.(type) {
	case []int64:
		p := make([]string, len(v))
		for i, e := range v {
			p[i] = strconv.FormatInt(e, 10)
		}
		return "[" + strings.Join(p, " ") + "]"
	case []string:
		p := make([]string, len(v))
		for i, e := range v {
			p[i] = `"` + e + `"`
		}
		return "[" + strings.Join(p, " ") + "]"
	}
	return t.Lit
}

func infixR(sb *strings.Builder, t *term.Term, style int, top bool) {
	wide := style == 2
	sp := " "
	if wide {
		sp = "  "
	}
	wrap := func(need bool, f func()) {
		if need {
			sb.WriteString("(")
			if wide {
				sb.WriteString(" ")
			}
		}
		f()
		if need {
			if wide {
				sb.WriteString(" ")
			}
			sb.WriteString(")")
		}
	}
	switch {
	case t.K == term.KConst || t.K == term.KVar:
		wrap(style == 2, func() {
			if t.K == term.KVar {
				sb.WriteString(t.Name)
			} else {
				sb.WriteString(infixLit(t))
			}
		})
	case isInfixBinary(t):
		p := infixPrec(t.Name)
		wrap(style == 1 && !top || style == 2, func() {
			l, r := t.Kids[0], t.Kids[1]
			wrap((style == 0 || style == 3) && termPrec(l) < p, func() { infixR(sb, l, style, false) })
			sb.WriteString(sp + t.Name + sp)
			wrap((style == 0 || style == 3) && termPrec(r) <= p, func() { infixR(sb, r, style, false) })
		})
	case isInfixUnary(t):
		wrap(style == 1 && !top || style == 2, func() {
			k := t.Kids[0]
			sb.WriteString("!")
			if !(style == 3 && k.K == term.KVar) {
				sb.WriteString(sp)
			}
			wrap((style == 0 || style == 3) && termPrec(k) <= 6, func() { infixR(sb, k, style, false) })
		})
	default: // call syntax: name(a, b, ...)
		wrap(style == 2, func() {
			sb.WriteString(t.Name)
			sb.WriteString("(")
			for i, k := range t.Kids {
				if i > 0 {
					if style == 3 {
						sb.WriteString(",")
					} else {
						sb.WriteString("," + sp)
					}
				}
				infixR(sb, k, style, true)
			}
			sb.WriteString(")")
		})
	}
}
