// Package props holds one checker per property.
package props

import (
	"fmt"

	"verifmc/drive"
	"verifmc/ref"
	"verifmc/rep"
	"verifmc/term"
)

// Check is the entry point of one property's checker.
type Check func(r *rep.Run)

var Registry = map[string]Check{}

// Replayers re-run a single recorded case (check replay <file>).
var Replayers = map[string]func(kind string, c map[string]interface{}) error{}

// ---------- alphabets ----------

var (
	B = term.TB
	I = term.TI
)

func sig(name string, ret term.Ty, args ...term.Ty) term.OpSig {
	return term.OpSig{Name: name, Args: args, Ret: ret}
}

// Core: the short-circuit skeleton. Every engine code path that computes jump
// targets, stack slots and parent flags is driven by and/or/not/if nesting.
func Core() *term.Alphabet {
	return &term.Alphabet{
		Leaves: map[term.Ty][]*term.Term{
			B: {term.Const(true), term.Const(false), term.Var("b", B)},
		},
		Ops: []term.OpSig{
			sig("and", B, B, B), sig("and", B, B, B, B),
			sig("or", B, B, B), sig("or", B, B, B, B),
			sig("not", B, B),
			{Name: "if", Args: []term.Ty{B, B, B}, Ret: B, If: true},
		},
	}
}

// Rich: Core plus integer sub-expressions that can fail (division), an
// n-ary-via-stack and a fast binary builtin, int-typed if, ConstantMap
// constants and the registered operators p (unary), q (binary), boom (fails).
func Rich() *term.Alphabet {
	return &term.Alphabet{
		Leaves: map[term.Ty][]*term.Term{
			B: {term.Const(true), term.Const(false), term.Var("b", B), term.Named("KT", true)},
			I: {term.Const(0), term.Const(1), term.Var("n", I)},
		},
		Ops: []term.OpSig{
			sig("and", B, B, B), sig("and", B, B, B, B),
			sig("or", B, B, B),
			sig("not", B, B),
			{Name: "if", Args: []term.Ty{B, B, B}, Ret: B, If: true},
			{Name: "if", Args: []term.Ty{B, I, I}, Ret: I, If: true},
			sig("=", B, I, I),
			sig("/", I, I, I),
			sig("+", I, I, I, I),
			sig("p", B, B),
			sig("q", B, B, B),
			sig("boom", B),
		},
	}
}

// Prog is one enumerated program.
type Prog struct {
	T    *term.Term
	Vars []term.VarDecl
	Src  string
	Size int
	// Infix: Src is infix text (forms prefix notation cannot write, such as
	// a lone leaf); the program is compiled with InfixNotation on.
	Infix bool
}

func MkProg(t *term.Term) *Prog {
	vars := t.RenameVars()
	return &Prog{T: t, Vars: vars, Src: t.Src(), Size: t.Size()}
}

// Programs enumerates every program of the alphabet with at most max nodes.
func Programs(a *term.Alphabet, roots []term.Ty, max int) []*Prog {
	g := term.NewGen(a)
	ts := g.UpTo(roots, max)
	ps := make([]*Prog, 0, len(ts))
	for _, t := range ts {
		if t.K == term.KConst || t.K == term.KVar {
			continue // a bare leaf is not a well-formed prefix program
		}
		ps = append(ps, MkProg(t))
	}
	return ps
}

// Aliased returns a copy of the program with and/or written as the mode-th
// alias (0: and/or, 1: &/|, 2: &&/||) and not as ! for mode 1.
func Aliased(p *Prog, mode int) *Prog {
	if mode == 0 {
		return p
	}
	t := p.T.Clone()
	t.Walk(func(n *term.Term) {
		if n.K != term.KOp {
			return
		}
		switch {
		case term.IsAnd(n.Name):
			n.Name = []string{"and", "&", "&&"}[mode]
		case term.IsOr(n.Name):
			n.Name = []string{"or", "|", "||"}[mode]
		case n.Name == "not" && mode == 1:
			n.Name = "!"
		case n.Name == "=" && mode == 1:
			n.Name = "eq"
		case n.Name == "=" && mode == 2:
			n.Name = "=="
		case n.Name == "/" && mode == 1:
			n.Name = "div"
		case n.Name == "+" && mode == 2:
			n.Name = "add"
		}
	})
	return &Prog{T: t, Vars: p.Vars, Src: t.Src(), Size: p.Size}
}

// Doms returns the per-variable binding domains.
func Doms(vars []term.VarDecl, withErr bool) [][]interface{} {
	d := make([][]interface{}, len(vars))
	for i, v := range vars {
		d[i] = drive.Domain(v.Ty, withErr)
	}
	return d
}

func envFor(vars []term.VarDecl, vals []interface{}) *ref.Env {
	m := make(map[string]interface{}, len(vars))
	for i, v := range vars {
		m[v.Name] = vals[i]
	}
	return &ref.Env{Vals: m, Custom: ref.Customs}
}

// refOut converts a reference result into a comparable outcome.
func refOut(v interface{}, err error) drive.Out { return drive.Out{Val: v, Err: err} }

// caseDesc is the replayable description of a single execution.
func caseDesc(src string, o drive.Opt, vars []term.VarDecl, vals []interface{}, avail []bool, extra map[string]interface{}) map[string]interface{} {
	m := map[string]interface{}{
		"source":    src,
		"config":    o.String(),
		"optbits":   o.OptBits(),
		"events":    o.Events,
		"undef":     o.Undef,
		"directive": o.Directive,
		"infix":     o.Infix,
	}
	if vals != nil {
		m["binding"] = drive.BindingMap(vars, vals, avail)
	}
	for k, v := range extra {
		m[k] = v
	}
	return m
}

func traceStr(t []ref.Ev) []string {
	s := make([]string, len(t))
	for i, e := range t {
		s[i] = e.String()
	}
	return s
}

func fmtOut(o drive.Out) string { return o.String() }

func sprintf(f string, a ...interface{}) string { return fmt.Sprintf(f, a...) }

// eventCap is a channel capacity that no terminating evaluation can fill:
// a forward-only evaluation emits at most one LOOP event per program slot and
// one OP_EXEC per operator; programs have at most 2*(size+#if) slots.
func eventCap(size int) int { return 8*size + 64 }
