package props

import (
	"context"
	"fmt"
	"math"
	"strings"
	"sync/atomic"
	"time"

	eval "github.com/onheap/eval"

	"verifmc/drive"
	"verifmc/ref"
	"verifmc/rep"
	"verifmc/term"
)

func init() {
	Registry["C04"] = func(r *rep.Run) { tryEvalCheck(r, false) }
	Registry["C05"] = func(r *rep.Run) { tryEvalCheck(r, true) }
}

// illTyped is the wrong-typed value an unavailable variable may turn out to
// have (the statement quantifies over every assignment for which Eval
// succeeds).
func illTyped(ty term.Ty) interface{} {
	if ty == term.TB {
		return int64(5)
	}
	return true
}

func isDNE(v interface{}) bool { return v == eval.DNE }

// tryEvalCheck is the shared explorer of C04 (kleene=false) and C05
// (kleene=true): all programs x configurations x availability splits x value
// assignments.
func tryEvalCheck(r *rep.Run, kleene bool) {
	coreMax, richMax := 7, 6
	r.SetBudget(300e9)
	withIll := false
	if r.Thorough() {
		coreMax, richMax = 8, 6
		withIll = !kleene
		r.SetBudget(1800e9)
	}
	if kleene {
		r.Rule = "every CORE/RICH program up to the node bound (+ the one-node programs only infix notation can write) x 16 optimisation subsets x {events off, ReportEvent} (+ variables resolved by name, + registered variables in a config that allows undefined ones, there also through the context NewCtxFromVars builds from the available values; unavailable variables also expressed as cached-with-the-DNE-marker-as-value) x every split of its variables into available/unavailable x every value assignment; plus programs compiled against an EXTENSION of the config the context was built from (0..18, 254..300 bound variables, one or two late ones): late variables are unavailable; restricted to pairs in which no operator application over known values fails; oracle: strong-Kleene three-valued reference R2 — R2 definite => TryEval returns exactly that value with nil error; R2 unknown => TryEval returns DNE or a value that Eval confirms on every completion, never an error; TryEvalBool mirrors (ErrDNE iff DNE). non-trivial = (program,split,assignment) triples with at least one unavailable variable and a definite R2 answer"
	} else {
		r.Rule = "every CORE/RICH program up to the node bound (+ the one-node programs only infix notation can write) x 16 optimisation subsets x {events off, ReportEvent} (+ variables resolved by name, + registered variables in a config that allows undefined ones, there also through the context NewCtxFromVars builds from the available values; unavailable variables also expressed as cached-with-the-DNE-marker-as-value) x every split of its variables into available/unavailable (2^k) x every value assignment to both parts (thorough: plus one ill-typed value per unavailable variable); oracle: a definite TryEval answer equals real Eval on EVERY completion on which Eval succeeds; with everything available TryEval == Eval (value and error-ness); a definite answer on a split stays the same on every larger split; no Get on an unavailable variable. Plus 9 programs with user operators that keep the parameter slice they were handed (tuple constructors of 1/3/4 parameters) or read a variable by name through their context, and 38 programs over value domains the typed sweep lacks (int64 extremes under every comparison, empty strings and empty/one-element lists under in/overlap). non-trivial = triples with an unavailable variable and a definite TryEval answer"
	}
	r.Assume = []string{"small-scope hypothesis on tree size", "the fetcher truthfully reports availability (Cached) and values"}
	r.Cov["bounds"] = map[string]int{"core_max_nodes": coreMax, "rich_max_nodes": richMax}
	progs, nCore := corpus(coreMax, richMax)
	r.Cov["programs_core"], r.Cov["programs_rich"] = nCore, len(progs)-nCore
	aliasMax := 5
	if r.Thorough() {
		aliasMax = 6
	}
	progs = withAliases(progs, aliasMax)
	progs = withMerged(progs, 5)
	progs = append(loneLeafPrograms(), progs...)
	r.Cov["programs_incl_alias_spellings"] = len(progs)
	hs := harnesses(r.Workers)
	opts := optMatrix(0, 1)
	// variables resolved by name (all share the undefined key), and registered
	// variables in a config that also allows undefined ones
	for _, b := range []int{0, 4, 15} {
		o := drive.FromBits(b)
		o.Undef = 1
		opts = append(opts, o)
	}
	for _, b := range []int{0, 15} {
		o := drive.FromBits(b)
		o.Undef = 3
		opts = append(opts, o)
		o.Undef = 4 // two names registered under one key (availability and values are per NAME)
		opts = append(opts, o)
	}

	done := r.ParallelFor(len(progs), func(w, i int) {
		p := progs[i]
		h := hs[w]
		r.Note(w, p.Src)
		k := len(p.Vars)
		if k > 6 {
			return // (only some of the hand-made wide programs; every enumerated tree has <= 6 variables)
		}
		popts := opts
		if p.Size <= 5 {
			// small programs also under Debug and under both event options
			popts = append(append([]drive.Opt{}, opts...), optMatrix(2)...)
			for _, b := range []int{0, 15} {
				o := drive.FromBits(b)
				o.Events = 3
				popts = append(popts, o)
			}
		}
		cs := compileAll(r, h, p, popts)
		// per-variable domains: the two typed values, a non-canonical Go int
		// for integers (a fetcher may hand back exactly what the caller
		// stored), and in the thorough tier one ill-typed value; available
		// and unavailable variables range over the whole domain
		dom := make([][]interface{}, k)
		rad := make([]int, k)
		for v := range p.Vars {
			dom[v] = drive.Domain(p.Vars[v].Ty, false)
			if !kleene && p.Vars[v].Ty == term.TI {
				dom[v] = append(dom[v], int(1))
				if k <= 4 {
					dom[v] = append(dom[v], nil) // an unset / null value
				}
			}
			if withIll {
				dom[v] = append(dom[v], illTyped(p.Vars[v].Ty))
			}
			rad[v] = len(dom[v])
		}
		total := 1
		for v := 0; v < k; v++ {
			total *= rad[v]
		}
		decode := func(idx int, vals []interface{}) {
			for v := 0; v < k; v++ {
				vals[v] = dom[v][idx%rad[v]]
				idx /= rad[v]
			}
		}
		vals := make([]interface{}, k)
		avail := make([]bool, k)
		var st, tr, ex, nt int64
		table := make([]drive.Out, total)
		typedOnly := make([]bool, total)
		for ci := range cs {
			c := &cs[ci]
			// Eval table over all full assignments
			for idx := 0; idx < total; idx++ {
				decode(idx, vals)
				typed := true
				for v, x := idx, 0; x < k; x++ {
					if v%rad[x] >= 2 {
						typed = false
					}
					v /= rad[x]
				}
				typedOnly[idx] = typed
				copy(c.f.Vals, vals)
				c.f.Avail = nil
				h.Reset()
				table[idx] = h.Eval(c.e, c.f)
				ex++
				tr += int64(len(h.Trace)) + 1
			}
			// every split x every typed assignment of the available part
			// definite[mask][assignment of available vars] remembered for monotonicity
			type key struct{ mask, asg int }
			definite := map[key]interface{}{}
			// one context object reused for every TryEval on this program (the
			// usual remote-call-optimisation loop keeps its Ctx): availability
			// and values change between calls, answers must not be remembered
			shared := &eval.Ctx{VariableFetcher: c.f}
			for mask := 0; mask < 1<<k; mask++ { // bit v set => variable v available
				for v := 0; v < k; v++ {
					avail[v] = mask&(1<<v) != 0
				}
				// enumerate assignments to the available variables (unavailable ones fixed at index 0)
				for idx := 0; idx < total; idx++ {
					skip := false
					for v, x := idx, 0; x < k; x++ {
						if !avail[x] && v%rad[x] != 0 {
							skip = true
							break
						}
						// available variables stay inside the typed fragment
						// (and/or operands are boolean-typed or failing); the
						// ill-typed value only occurs in completions
						if avail[x] && withIll && v%rad[x] == rad[x]-1 {
							skip = true
							break
						}
						v /= rad[x]
					}
					if skip {
						continue
					}
					asg := idx
					if idx%512 == 0 {
						r.Note(w, p.Src) // progress within one program
					}
					decode(idx, vals)
					copy(c.f.Vals, vals)
					c.f.Avail = avail
					h.Reset()
					got := h.TryEval(c.e, c.f)
					if c.o.Events == 0 {
						h.Reset()
						gs := h.TryEvalCtx(c.e, shared)
						ex++
						if !drive.SameOutcome(gs, got) || (got.Err == nil && isDNE(got.Val) != isDNE(gs.Val)) {
							r.Violate("reused-context", p.Src+c.o.String(), sprintf("TryEval on a reused Ctx gives %s where a fresh Ctx gives %s (an answer was remembered across calls)", gs, got), caseDesc(p.Src, c.o, p.Vars, vals, avail, nil))
						}
						h.Reset()
					}
					// user fetchers built by embedding a library fetcher and
					// overriding Cached/Get must be honoured just the same
					if c.o.Events == 0 && (c.o.OptBits() == 0 || c.o.OptBits() == 15) {
						for kind := 0; kind < 2; kind++ {
							h.Reset()
							var g2 drive.Out
							if kind == 0 {
								g2 = h.TryEval(c.e, embedMap{MapVarFetcher: eval.MapVarFetcher{}, f: c.f})
							} else {
								g2 = h.TryEval(c.e, embedSlice{SliceVarFetcher: make(eval.SliceVarFetcher, 2), f: c.f})
							}
							ex++
							if !drive.SameOutcome(g2, got) || (got.Err == nil && isDNE(got.Val) != isDNE(g2.Val)) {
								r.Violate("embedding-fetcher", p.Src+c.o.String(), sprintf("a fetcher that embeds a library fetcher and overrides Cached/Get gets %s where the plain fetcher gets %s", g2, got), caseDesc(p.Src, c.o, p.Vars, vals, avail, nil))
							}
						}
						// the other way to say "unavailable": every key is known and
						// the missing ones carry the DNE marker as their value
						if mask != 1<<k-1 {
							h.Reset()
							gd := h.TryEval(c.e, dneValued{c.f})
							ex++
							if !drive.SameOutcome(gd, got) || (got.Err == nil && isDNE(got.Val) != isDNE(gd.Val)) {
								r.Violate("dne-valued-variable", p.Src+c.o.String(), sprintf("with the unavailable variables bound to the DNE marker (and reported as cached) TryEval gives %s, with the same variables reported as not cached it gives %s", gd, got), caseDesc(p.Src, c.o, p.Vars, vals, avail, nil))
							}
						}
						h.Reset()
					}
					ex++
					st++
					tr += int64(len(h.Trace)) + 1
					d := func(extra map[string]interface{}) map[string]interface{} {
						return caseDesc(p.Src, c.o, p.Vars, vals, avail, extra)
					}
					// the context the library builds from exactly the available
					// values (NewCtxFromVars chooses the fetcher from the config)
					if c.o.Undef == 3 && typedOnly[idx] && got.Panic == nil {
						supplied := map[string]interface{}{}
						for v := 0; v < k; v++ {
							if avail[v] {
								supplied[p.Vars[v].Name] = vals[v]
							}
						}
						for variant := 0; variant < 2; variant++ {
							if variant == 1 {
								// the unavailable variables supplied as DNE-valued entries
								for v := 0; v < k; v++ {
									if !avail[v] {
										supplied[p.Vars[v].Name] = eval.DNE
									}
								}
								if mask == 1<<k-1 {
									break
								}
							}
							var lv eval.Value
							var lerr error
							pn, site := drive.Fence(func() { lv, lerr = c.e.TryEval(eval.NewCtxFromVars(c.cfg, supplied)) })
							ex++
							lib := drive.Out{Val: lv, Err: lerr, Panic: pn, Site: site}
							if !drive.SameOutcome(lib, got) || (got.Err == nil && isDNE(got.Val) != isDNE(lib.Val)) {
								r.Violate("library-context", p.Src+c.o.String()+fmt.Sprint(variant), sprintf("TryEval with the context NewCtxFromVars builds from the available values%s gives %s, with a fetcher reporting the same availability it gives %s", []string{"", " (unavailable ones supplied as DNE-valued entries)"}[variant], lib, got), d(map[string]interface{}{"supplied": fmt.Sprint(supplied)}))
							}
						}
					}
					if got.Panic != nil {
						r.Violate("panic", p.Src+c.o.String(), sprintf("TryEval panics: %v at %s", got.Panic, got.Site), d(nil))
						continue
					}
					if len(h.Protocol) > 0 {
						r.Violate("fetcher-protocol", p.Src+c.o.String(), h.Protocol[0], d(nil))
					}
					def := got.Err == nil && !isDNE(got.Val)
					if def && mask != 1<<k-1 {
						nt++
					}
					// --- C04 oracles (also run under C05 for definite answers R2 calls unknown) ---
					confirm := func(kind string) bool {
						okAll := true
						for full := 0; full < total; full++ {
							// completion must agree with the available assignment
							match := true
							f, a := full, idx
							for v := 0; v < k; v++ {
								if avail[v] && f%rad[v] != a%rad[v] {
									match = false
									break
								}
								f /= rad[v]
								a /= rad[v]
							}
							if !match || table[full].Err != nil || table[full].Panic != nil {
								continue
							}
							if !ref.ValEqual(table[full].Val, got.Val) {
								cv := make([]interface{}, k)
								decode(full, cv)
								r.Violate(kind, p.Src+c.o.String(), sprintf("TryEval answers %v with %d variable(s) unavailable, but Eval returns %v once they are fetched", got.Val, k-popcount(mask), table[full].Val),
									d(map[string]interface{}{"completion": drive.BindingMap(p.Vars, cv, nil), "tryeval": got.String(), "eval": table[full].String()}))
								okAll = false
								break
							}
						}
						return okAll
					}
					if !kleene {
						if def {
							confirm("contradicted")
							definite[key{mask, asg}] = got.Val
							// monotonicity: every sub-split with the same values on its available part
							for sub := mask; ; sub = (sub - 1) & mask {
								if sub != mask {
									// the same values restricted to the smaller available set
									rest, mul, x := 0, 1, asg
									for v := 0; v < k; v++ {
										if sub&(1<<v) != 0 {
											rest += (x % rad[v]) * mul
										}
										x /= rad[v]
										mul *= rad[v]
									}
									if v, ok := definite[key{sub, rest}]; ok && !ref.ValEqual(v, got.Val) {
										r.Violate("non-monotone", p.Src+c.o.String(), sprintf("TryEval answered %v with fewer variables available and answers %v with more", v, got.Val), d(nil))
									}
								}
								if sub == 0 {
									break
								}
							}
						}
						if mask == 1<<k-1 {
							full := table[idx]
							same := (got.Err != nil) == (full.Err != nil) && (got.Err != nil || ref.ValEqual(got.Val, full.Val))
							if !same {
								r.Violate("all-available", p.Src+c.o.String(), sprintf("with every variable available TryEval=%s but Eval=%s", got, full), d(nil))
							}
						}
						continue
					}
					// --- C05 oracle ---
					env := envFor(p.Vars, vals)
					for v := 0; v < k; v++ {
						if !avail[v] {
							env.Vals[p.Vars[v].Name] = ref.Unknown
						}
					}
					kv, kerr := env.Kleene(p.T)
					if kerr != nil {
						continue // a sub-expression fails: outside the domain
					}
					if kv != ref.Unknown {
						if got.Err != nil || !ref.ValEqual(got.Val, kv) {
							r.Violate("less-informative", p.Src+c.o.String(), sprintf("three-valued evaluation decides %v but TryEval returns %s", kv, got), d(map[string]interface{}{"kleene": sprintf("%v", kv), "tryeval": got.String()}))
						}
					} else {
						if got.Err != nil {
							r.Violate("error-instead-of-DNE", p.Src+c.o.String(), sprintf("TryEval cannot decide but returns an error instead of DNE: %v", got.Err), d(nil))
						} else if def {
							confirm("default-value")
						}
					}
					if p.T.Ty == B && c.o.Events == 0 {
						h.Reset()
						b, err := tryEvalBool(c.e, c.f)
						ex++
						switch {
						case kv == ref.Unknown && !def:
							if err != eval.ErrDNE {
								r.Violate("tryevalbool", p.Src+c.o.String(), sprintf("TryEval gives DNE but TryEvalBool returns (%v,%v) instead of ErrDNE", b, err), d(nil))
							}
						case kv != ref.Unknown:
							if err != nil || b != kv.(bool) {
								r.Violate("tryevalbool", p.Src+c.o.String(), sprintf("three-valued evaluation decides %v but TryEvalBool returns (%v,%v)", kv, b, err), d(nil))
							}
						}
					}
				}
			}
		}
		r.Add(st, tr, ex, ex, nt)
		if i%1499 == 0 {
			r.Sample(12, map[string]interface{}{"program": p.Src, "configs": len(cs), "variables": k, "splits": 1 << k})
		}
	})
	r.Cov["programs_completed"] = done
	tryEvalLateVariable(r)
	tryEvalDottedNames(r)
	tryEvalCallerContext(r)
	tryEvalDeepClimbs(r)
	if !kleene {
		tryEvalUserOperators(r)
		tryEvalValues(r)
	}
	r.Finish()
}

// tryEvalLateVariable: the context is built by the library from a BASE config
// (n variables, keys 1..n, all bound), the program is compiled against an
// EXTENSION of it that registers one or two further variables afterwards.
// Those late variables are unknown to the context, so TryEval must treat them
// as unavailable: DNE unless the bound variables decide. n covers every
// fetcher size 0..18 (slice fetchers), and one size beyond the slice range.
func tryEvalLateVariable(r *rep.Run) {
	var runs int64
	for _, n := range []int{0, 1, 2, 3, 4, 5, 6, 7, 8, 9, 10, 14, 15, 16, 17, 18, 254, 255, 256, 300} {
		for undef := 0; undef < 2; undef++ {
			base := eval.NewConfig()
			if undef == 1 {
				base.CompileOptions[eval.AllowUndefinedVariable] = true
			}
			vals := map[string]interface{}{}
			for i := 1; i <= n; i++ {
				name := fmt.Sprintf("v%d", i)
				eval.GetOrRegisterKey(base, name)
				vals[name] = true
			}
			ext := eval.NewConfig(eval.ExtendConf(base))
			for late := 1; late <= 2; late++ {
				eval.GetOrRegisterKey(ext, fmt.Sprintf("late%d", late))
				lv := fmt.Sprintf("late%d", late)
				first := "true"
				if n > 0 {
					first = "v1"
				}
				cases := []struct {
					src  string
					want interface{} // nil: DNE
				}{
					{"(if (eq " + lv + " 1) 10 20)", nil},
					{"(and " + first + " (eq " + lv + " 1))", nil},
					{"(or " + first + " (eq " + lv + " 1))", true},
					{"(and (not " + first + ") " + lv + ")", false},
					{"(eq " + lv + " " + lv + ")", nil},
					{"(+ 1 " + lv + ")", nil},
				}
				for _, cse := range cases {
					e, err := eval.Compile(ext, cse.src)
					if err != nil {
						r.Violate("compile", cse.src, sprintf("does not compile against the extended config: %v", err), nil)
						continue
					}
					ctxs := map[string]func() *eval.Ctx{
						"NewCtxFromVars(base config)": func() *eval.Ctx { return eval.NewCtxFromVars(base, vals) },
						"NewMapVarFetcher":            func() *eval.Ctx { return &eval.Ctx{VariableFetcher: eval.NewMapVarFetcher(vals)} },
					}
					if n < 200 && n > 0 {
						ctxs["NewSliceVarFetcher(base config)"] = func() *eval.Ctx { return &eval.Ctx{VariableFetcher: eval.NewSliceVarFetcher(base, vals)} }
					}
					for cname, mk := range ctxs {
						var v eval.Value
						var terr error
						p, site := drive.Fence(func() { v, terr = e.TryEval(mk()) })
						runs++
						got := drive.Out{Val: v, Err: terr, Panic: p, Site: site}
						ok := p == nil && terr == nil && ((cse.want == nil && isDNE(v)) || (cse.want != nil && v == cse.want))
						if !ok {
							wantS := "DNE"
							if cse.want != nil {
								wantS = fmt.Sprint(cse.want)
							}
							r.Violate("late-variable", cse.src+cname, sprintf("TryEval of %s gives %s, expected %s: the context (%s, %d bound variables) does not know the variable registered afterwards", cse.src, got, wantS, cname, n),
								map[string]interface{}{"source": cse.src, "context": cname, "base_variables": n, "allow_undefined": undef == 1, "extended_keys": fmt.Sprint(len(ext.VariableKeyMap))})
						}
					}
				}
			}
		}
	}
	r.Cov["late_variable_runs"] = runs
	r.Add(0, runs, runs, runs, runs)
}

// embedMap / embedSlice: user fetchers that embed a library fetcher (empty)
// and override the whole protocol.
type embedMap struct {
	eval.MapVarFetcher
	f *drive.Fetcher
}

func (e embedMap) Get(k eval.VariableKey, s string) (eval.Value, error) { return e.f.Get(k, s) }
func (e embedMap) Cached(k eval.VariableKey, s string) bool             { return e.f.Cached(k, s) }

type embedSlice struct {
	eval.SliceVarFetcher
	f *drive.Fetcher
}

func (e embedSlice) Get(k eval.VariableKey, s string) (eval.Value, error) { return e.f.Get(k, s) }
func (e embedSlice) Cached(k eval.VariableKey, s string) bool             { return e.f.Cached(k, s) }

// dneValued: a fetcher that knows every key (Cached is always true) and
// answers an unavailable variable with the DNE marker AS ITS VALUE (the
// `name: DNE` convention of GenVariables).
type dneValued struct{ f *drive.Fetcher }

func (d dneValued) Get(k eval.VariableKey, s string) (eval.Value, error) {
	if i, ok := d.f.Idx[s]; ok && d.f.Avail != nil && !d.f.Avail[i] {
		return eval.DNE, nil
	}
	return d.f.Get(k, s)
}
func (d dneValued) Set(eval.VariableKey, string, eval.Value) error { return nil }
func (d dneValued) Cached(eval.VariableKey, string) bool           { return true }

func popcount(x int) int {
	n := 0
	for ; x != 0; x &= x - 1 {
		n++
	}
	return n
}

func tryEvalBool(e *eval.Expr, f eval.VariableFetcher) (b bool, err error) {
	defer func() {
		if p := recover(); p != nil {
			err = &drive.PanicErr{V: p}
		}
	}()
	return e.TryEvalBool(&eval.Ctx{VariableFetcher: f})
}

// tryEvalUserOperators: user operators that do what the API lets them do —
// keep the parameter slice they were handed (a tuple constructor of 1, 3 or 4
// parameters) and read a variable by name through the context they were
// handed. Every split x every assignment; oracles of C04: a definite TryEval
// answer equals Eval on every completion on which Eval succeeds, and with
// everything available TryEval == Eval.
func tryEvalUserOperators(r *rep.Run) {
	h := drive.NewHarness()
	tup := func(_ *eval.Ctx, params []eval.Value) (eval.Value, error) { return params, nil }
	h.OpMap["tup1"], h.OpMap["tup3"], h.OpMap["tup4"] = tup, tup, tup
	h.OpMap["nth"] = func(_ *eval.Ctx, params []eval.Value) (eval.Value, error) {
		if len(params) != 2 {
			return nil, ref.ErrBuiltin
		}
		l, ok1 := params[0].([]eval.Value)
		i, ok2 := params[1].(int64)
		if !ok1 || !ok2 || i < 0 || int(i) >= len(l) {
			return nil, ref.ErrBuiltin
		}
		return l[i], nil
	}
	// (var_eq "name" v): is the variable called name equal to v? Read through ctx.
	h.OpMap["var_eq"] = func(ctx *eval.Ctx, params []eval.Value) (eval.Value, error) {
		if len(params) != 2 {
			return nil, ref.ErrBuiltin
		}
		name, _ := params[0].(string)
		f, ok := ctx.VariableFetcher.(*drive.Fetcher)
		if !ok {
			return nil, ref.ErrBuiltin
		}
		i, ok := f.Idx[name]
		if !ok {
			return nil, ref.ErrBuiltin
		}
		f.FromOp = true
		v, err := ctx.Get(f.Keys[i], name)
		f.FromOp = false
		if err != nil {
			return nil, err
		}
		return v == params[1], nil
	}
	vI := func(i int) term.VarDecl { return term.VarDecl{Name: sprintf("n%d", i), Ty: I} }
	vB := func(i int) term.VarDecl { return term.VarDecl{Name: sprintf("b%d", i), Ty: B} }
	progs := []*Prog{
		{Src: "(or (= (nth (tup3 n0 n1 n2) 1) 1) b3)", Vars: []term.VarDecl{vI(0), vI(1), vI(2), vB(3)}},
		{Src: "(and b3 (= (nth (tup3 n0 n1 n2) 0) (nth (tup3 n0 n1 n2) 2)))", Vars: []term.VarDecl{vI(0), vI(1), vI(2), vB(3)}},
		{Src: "(= (+ (nth (tup4 n0 n1 1 n2) 3) (nth (tup1 n1) 0) 1) 2)", Vars: []term.VarDecl{vI(0), vI(1), vI(2)}},
		{Src: "(if b3 (nth (tup3 n0 n1 n2) 1) (+ (nth (tup3 n0 1 n2) 2) n1))", Vars: []term.VarDecl{vI(0), vI(1), vI(2), vB(3)}},
		{Src: "(or b2 (= (nth (tup1 n0) 0) (+ n1 1 0)))", Vars: []term.VarDecl{vI(0), vI(1), vB(2)}},
		{Src: "(and (= n0 1) (var_eq \"n1\" 1))", Vars: []term.VarDecl{vI(0), vI(1)}},
		{Src: "(or (= n0 1) (not (var_eq \"n1\" 0)))", Vars: []term.VarDecl{vI(0), vI(1)}},
		{Src: "(if (var_eq \"b1\" true) n0 (+ n0 1))", Vars: []term.VarDecl{vI(0), vB(1)}},
		{Src: "(and b0 (var_eq \"b1\" true) (var_eq \"n2\" 1))", Vars: []term.VarDecl{vB(0), vB(1), vI(2)}},
	}
	runs, nontrivial := tryEvalConsistency(r, h, progs, func(v term.VarDecl) []interface{} {
		if v.Ty == B {
			return []interface{}{true, false}
		}
		return []interface{}{int64(0), int64(1), int64(4)}
	}, []drive.Opt{{}, {CF: true, RN: true, FE: true, RO: true}, {FE: true}, {RN: true, RO: true}, {Undef: 1}, {CF: true, RN: true, FE: true, RO: true, Undef: 1}})
	r.Cov["user_operator_runs"] = runs
	r.Add(0, runs, runs, runs, nontrivial)
}

// tryEvalConsistency runs the two C04 oracles (a definite TryEval answer equals
// Eval on every completion on which Eval succeeds; with everything available
// TryEval == Eval) for hand-written programs over explicit value domains:
// every split x every assignment x the given option sets.
func tryEvalConsistency(r *rep.Run, h *drive.Harness, progs []*Prog, domFor func(term.VarDecl) []interface{}, optSets []drive.Opt) (int64, int64) {
	var runs, nontrivial int64
	for _, p := range progs {
		k := len(p.Vars)
		doms := make([][]interface{}, k)
		total := 1
		for v := range p.Vars {
			doms[v] = domFor(p.Vars[v])
			total *= len(doms[v])
		}
		decode := func(idx int, vals []interface{}) {
			for v := 0; v < k; v++ {
				vals[v] = doms[v][idx%len(doms[v])]
				idx /= len(doms[v])
			}
		}
		for _, o := range optSets {
			cfg := h.NewConfig(p.Vars, o)
			e, err := h.Compile(cfg, p.Src, 4096)
			if err != nil {
				r.Violate("compile", p.Src+o.String(), sprintf("hand-written program does not compile: %v", err), nil)
				continue
			}
			f := drive.NewFetcher(h, p.Vars, o)
			table := make([]drive.Out, total)
			for idx := 0; idx < total; idx++ {
				decode(idx, f.Vals)
				f.Avail = nil
				h.Reset()
				table[idx] = h.Eval(e, f)
				runs++
			}
			vals := make([]interface{}, k)
			avail := make([]bool, k)
			for mask := 0; mask < 1<<k; mask++ {
				for v := 0; v < k; v++ {
					avail[v] = mask&(1<<v) != 0
				}
				for idx := 0; idx < total; idx++ {
					// unavailable variables are fixed at their first value
					skip := false
					for v, x := 0, idx; v < k; v++ {
						if !avail[v] && x%len(doms[v]) != 0 {
							skip = true
						}
						x /= len(doms[v])
					}
					if skip {
						continue
					}
					decode(idx, vals)
					copy(f.Vals, vals)
					f.Avail = avail
					h.Reset()
					got := h.TryEval(e, f)
					runs++
					d := func(extra map[string]interface{}) map[string]interface{} {
						return caseDesc(p.Src, o, p.Vars, vals, avail, extra)
					}
					if got.Panic != nil {
						r.Violate("panic", p.Src+o.String(), sprintf("TryEval panics: %v at %s", got.Panic, got.Site), d(nil))
						continue
					}
					if len(h.Protocol) > 0 {
						r.Violate("fetcher-protocol", p.Src+o.String(), h.Protocol[0], d(nil))
					}
					if mask == 1<<k-1 {
						full := table[idx]
						if (got.Err != nil) != (full.Err != nil) || (got.Err == nil && !ref.ValEqual(got.Val, full.Val)) {
							r.Violate("all-available", p.Src+o.String(), sprintf("with every variable available TryEval=%s but Eval=%s", got, full), d(nil))
						}
						continue
					}
					if got.Err != nil || isDNE(got.Val) {
						continue
					}
					nontrivial++
					for full := 0; full < total; full++ {
						match := true
						for v, a, b := 0, full, idx; v < k; v++ {
							if avail[v] && a%len(doms[v]) != b%len(doms[v]) {
								match = false
							}
							a /= len(doms[v])
							b /= len(doms[v])
						}
						if !match || table[full].Err != nil || table[full].Panic != nil {
							continue
						}
						if !ref.ValEqual(table[full].Val, got.Val) {
							cv := make([]interface{}, k)
							decode(full, cv)
							r.Violate("contradicted", p.Src+o.String(), sprintf("TryEval answers %v with %d variable(s) unavailable, but Eval returns %v once they are fetched", got.Val, k-popcount(mask), table[full].Val),
								d(map[string]interface{}{"completion": drive.BindingMap(p.Vars, cv, nil), "tryeval": got.String(), "eval": table[full].String()}))
							break
						}
					}
				}
			}
		}
	}
	return runs, nontrivial
}

// tryEvalValues: the C04 oracles over VALUE domains the typed sweep does not
// have: int64 extremes under the ordering comparisons, and empty strings /
// empty and one-element lists under in / overlap.
func tryEvalValues(r *rep.Run) {
	h := drive.NewHarness()
	vI := func(i int) term.VarDecl { return term.VarDecl{Name: sprintf("n%d", i), Ty: I} }
	vB := func(i int) term.VarDecl { return term.VarDecl{Name: sprintf("b%d", i), Ty: B} }
	vS := func(i int) term.VarDecl { return term.VarDecl{Name: sprintf("s%d", i), Ty: term.TS} }
	vSL := func(i int) term.VarDecl { return term.VarDecl{Name: sprintf("ls%d", i), Ty: term.TSL} }
	vIL := func(i int) term.VarDecl { return term.VarDecl{Name: sprintf("li%d", i), Ty: term.TIL} }
	var progs []*Prog
	for _, cmp := range []string{"gt", "lt", "ge", "le", ">", "<", ">=", "<=", "=", "!="} {
		progs = append(progs,
			&Prog{Src: "(or (" + cmp + " n0 n1) b2)", Vars: []term.VarDecl{vI(0), vI(1), vB(2)}},
			&Prog{Src: "(and b2 (" + cmp + " n0 n1))", Vars: []term.VarDecl{vI(0), vI(1), vB(2)}},
			&Prog{Src: "(if (" + cmp + " n0 n1) 1 2)", Vars: []term.VarDecl{vI(0), vI(1)}})
	}
	progs = append(progs,
		&Prog{Src: "(between n0 n1 n2)", Vars: []term.VarDecl{vI(0), vI(1), vI(2)}},
		&Prog{Src: "(or (in s0 ls1) b2)", Vars: []term.VarDecl{vS(0), vSL(1), vB(2)}},
		&Prog{Src: "(and (not (in s0 ls1)) b2)", Vars: []term.VarDecl{vS(0), vSL(1), vB(2)}},
		&Prog{Src: "(if (overlap ls0 ls1) 1 2)", Vars: []term.VarDecl{vSL(0), vSL(1)}},
		&Prog{Src: "(or (overlap ls0 ls1) (in s2 ls0))", Vars: []term.VarDecl{vSL(0), vSL(1), vS(2)}},
		&Prog{Src: "(and (in n0 li1) b2)", Vars: []term.VarDecl{vI(0), vIL(1), vB(2)}},
		&Prog{Src: "(if (overlap li0 li1) 1 2)", Vars: []term.VarDecl{vIL(0), vIL(1)}},
		&Prog{Src: "(or (in s0 (\"\" \"g\")) (in s0 ls1))", Vars: []term.VarDecl{vS(0), vSL(1)}})
	runs, nontrivial := tryEvalConsistency(r, h, progs, func(v term.VarDecl) []interface{} {
		switch v.Ty {
		case B:
			return []interface{}{true, false}
		case I:
			return []interface{}{int64(0), int64(-1), int64(1), int64(math.MaxInt64), int64(math.MinInt64)}
		case term.TS:
			return []interface{}{"", "g", "x"}
		case term.TSL:
			return []interface{}{[]string{}, []string{""}, []string{"", "g"}, []string{"x"}}
		case term.TIL:
			return []interface{}{[]int64{}, []int64{0}, []int64{-1, math.MaxInt64}}
		}
		return []interface{}{nil}
	}, []drive.Opt{{}, {CF: true, RN: true, FE: true, RO: true}, {FE: true}, {Events: 1, FE: true}, {Undef: 1, FE: true}})
	r.Cov["value_domain_runs"] = runs
	r.Add(0, runs, runs, runs, nontrivial)
}

// truthMap is a truthful name-keyed fetcher: a variable is available exactly
// when the map holds an entry under its own name.
type truthMap map[string]interface{}

func (m truthMap) Get(_ eval.VariableKey, s string) (eval.Value, error) {
	v, ok := m[s]
	if !ok {
		return nil, fmt.Errorf("variable %s has no value", s)
	}
	return v, nil
}
func (m truthMap) Set(eval.VariableKey, string, eval.Value) error { return nil }
func (m truthMap) Cached(_ eval.VariableKey, s string) bool       { _, ok := m[s]; return ok }

// tryEvalDottedNames: variables whose names are dotted paths of one another
// (u, u.p, u.p.q) are independent variables. Every program of a small menu x
// {names resolved by name, names registered + undefined ones allowed, names
// registered} x every split into supplied / not supplied x extra supplied
// entries the program does not mention (among them an object under the root
// name): TryEval with the context NewCtxFromVars builds from the supplied
// entries answers exactly as with a truthful fetcher over the same entries,
// and a definite answer is what Eval returns once everything is supplied.
func tryEvalDottedNames(r *rep.Run) {
	names := []string{"u", "u.p", "u.p.q", "b"}
	full := map[string]interface{}{"u": int64(1), "u.p": int64(2), "u.p.q": int64(3), "b": true}
	srcs := []string{"(= u.p 2)", "(and (= u.p 2) b)", "(or b (= u.p 1))", "(if (= u.p.q 3) u.p 7)", "(+ u u.p u.p.q)", "(and (= u 1) (= u.p 2) (= u.p.q 3))",
		"(= (+ u.p 1) 3)", "(or (= u.p.q 9) (= u.p 9) (= u 1))", "(if b u.p u.p.q)", "(not (and b (!= u.p.q 3)))"}
	extras := []map[string]interface{}{{}, {"x": int64(5)}, {"u": map[string]interface{}{"p": int64(9), "q": nil}}, {"u.p": map[string]interface{}{"q": int64(9)}}, {"u": "text"}}
	var runs int64
	for _, src := range srcs {
		toks := strings.Fields(strings.NewReplacer("(", " ", ")", " ").Replace(src))
		var used []string
		for _, n := range names {
			for _, t := range toks {
				if t == n {
					used = append(used, n)
					break
				}
			}
		}
		for mode := 0; mode < 3; mode++ {
			cfg := eval.NewConfig(eval.Optimizations(mode != 2))
			if mode != 0 {
				for i, n := range names {
					cfg.VariableKeyMap[n] = eval.VariableKey(i + 1)
				}
			}
			if mode != 2 {
				cfg.CompileOptions[eval.AllowUndefinedVariable] = true
			}
			e, err := eval.Compile(cfg, src)
			if err != nil {
				r.Violate("compile", "dotted"+src, sprintf("%s does not compile: %v", src, err), map[string]interface{}{"source": src})
				continue
			}
			all := truthMap{}
			for _, n := range used {
				all[n] = full[n]
			}
			fv, ferr := e.Eval(&eval.Ctx{VariableFetcher: all})
			for mask := 0; mask < 1<<len(used); mask++ {
				for _, ex := range extras {
					supplied := map[string]interface{}{}
					clash := false
					for k, v := range ex {
						for _, n := range used {
							if n == k {
								clash = true
							}
						}
						supplied[k] = v
					}
					if clash {
						continue // the extra entry would bind a variable the program reads
					}
					truth := truthMap{}
					for i, n := range used {
						if mask&(1<<i) != 0 {
							supplied[n], truth[n] = full[n], full[n]
						}
					}
					if mode == 2 {
						// registered names, slice-backed context: what is not supplied reads as nil there, which is outside C04
						if mask != 1<<len(used)-1 {
							continue
						}
					}
					var tv, lv eval.Value
					var terr, lerr error
					pn, site := drive.Fence(func() {
						tv, terr = e.TryEval(&eval.Ctx{VariableFetcher: truth})
						lv, lerr = e.TryEval(eval.NewCtxFromVars(cfg, supplied))
					})
					runs += 2
					d := map[string]interface{}{"source": src, "supplied": fmt.Sprint(supplied), "names": []string{"resolved by name", "registered, undefined allowed", "registered"}[mode]}
					if pn != nil {
						r.Violate("panic", "dotted"+site, sprintf("TryEval of %s panics: %v (at %s)", src, pn, site), d)
						continue
					}
					lib, tru := drive.Out{Val: lv, Err: lerr}, drive.Out{Val: tv, Err: terr}
					if !drive.SameOutcome(lib, tru) || (terr == nil && isDNE(tv) != isDNE(lv)) {
						r.Violate("library-context", "dotted"+src+fmt.Sprint(mode), sprintf("%s: TryEval with the context NewCtxFromVars builds from %v gives %s, with a truthful fetcher over the same variables it gives %s", src, supplied, lib, tru), d)
						continue
					}
					if lerr == nil && !isDNE(lv) && ferr == nil && !drive.SameOutcome(lib, drive.Out{Val: fv}) {
						r.Violate("contradicted", "dotted"+src+fmt.Sprint(mode), sprintf("%s: TryEval answers %s with %v supplied, Eval with everything supplied returns %v", src, lib, supplied, fv), d)
					}
				}
			}
		}
	}
	r.Cov["dotted_name_runs"] = runs
	r.Add(0, runs, runs, runs, 0)
}

// tryEvalCallerContext: Ctx.Ctx is the CALLER's request-scoped data, handed
// through to fetchers and operators; the engine's answers do not depend on it.
// Every CORE/RICH program of at most 4 nodes x optimisations off / all on x
// every availability split x every binding: TryEval and Eval under a nil, a
// live, a cancelled and an expired context.Context give one and the same
// outcome.
func tryEvalCallerContext(r *rep.Run) {
	progs, _ := corpus(4, 4)
	hs := harnesses(r.Workers)
	cancelled, cancel := context.WithCancel(context.Background())
	cancel()
	expired, cancel2 := context.WithDeadline(context.Background(), time.Unix(1, 0))
	defer cancel2()
	live, cancel3 := context.WithCancel(context.WithValue(context.Background(), struct{ k string }{"request"}, 7))
	defer cancel3()
	ctxs := []context.Context{nil, live, cancelled, expired}
	names := []string{"nil", "live", "cancelled", "expired"}
	var runs int64
	r.ParallelFor(len(progs), func(w, i int) {
		p := progs[i]
		if len(p.Vars) > 4 {
			return
		}
		h := hs[w]
		r.Note(w, p.Src)
		cs := compileAll(r, h, p, []drive.Opt{{}, {CF: true, RN: true, FE: true, RO: true}})
		k := len(p.Vars)
		vals := make([]interface{}, k)
		drive.ForBindings(Doms(p.Vars, false), vals, func() bool {
			for ci := range cs {
				c := &cs[ci]
				copy(c.f.Vals, vals)
				for mask := 0; mask < 1<<k; mask++ {
					avail := make([]bool, k)
					for v := range avail {
						avail[v] = mask&(1<<v) != 0
					}
					var base [2]drive.Out
					for xi, cx := range ctxs {
						for mode := 0; mode < 2; mode++ {
							if mode == 0 && mask != 1<<k-1 {
								continue // Eval needs every variable
							}
							c.f.Avail = avail
							if mode == 0 {
								c.f.Avail = nil
							}
							h.Reset()
							var v eval.Value
							var err error
							pn, site := drive.Fence(func() {
								ctx := &eval.Ctx{VariableFetcher: c.f, Ctx: cx}
								if mode == 0 {
									v, err = c.e.Eval(ctx)
								} else {
									v, err = c.e.TryEval(ctx)
								}
							})
							atomic.AddInt64(&runs, 1)
							got := drive.Out{Val: v, Err: err, Panic: pn, Site: site}
							if xi == 0 {
								base[mode] = got
								continue
							}
							if !drive.SameOutcome(got, base[mode]) || (got.Err == nil && isDNE(got.Val) != isDNE(base[mode].Val)) {
								r.Violate("caller-context", p.Src+c.o.String()+names[xi], sprintf("%s with a %s context.Context in Ctx.Ctx gives %s, with none it gives %s", []string{"Eval", "TryEval"}[mode], names[xi], got, base[mode]),
									caseDesc(p.Src, c.o, p.Vars, vals, avail, nil))
							}
						}
					}
					c.f.Avail = nil
				}
			}
			return true
		})
	})
	r.Cov["caller_context_runs"] = runs
	r.Add(0, runs, runs, runs, 0)
}

// tryEvalDeepClimbs: the unknown (or deciding) operand sits EVERY distance from
// 0 to 200 (thorough: 400) unary operators below the `if`, and/or or n-ary
// operator that has to cope with it (chains of not / a registered unary
// operator / (+ 0 .)), in five surrounding shapes, optimisations off and all
// on, every split and binding. Oracle as in the main sweep: a definite Kleene
// value must be returned exactly; otherwise DNE or a value confirmed by real
// Eval on every completion.
func tryEvalDeepClimbs(r *rep.Run) {
	maxD := 200
	if r.Thorough() {
		maxD = 400
	}
	hs := harnesses(r.Workers)
	var runs, definite int64
	r.ParallelFor(maxD+1, func(w, d int) {
		h := hs[w]
		r.Note(w, sprintf("climb distance %d", d))
		bvar := func(n string) *term.Term { return term.KeptVar(n, B) }
		chainB := func(op string, leaf *term.Term) *term.Term {
			t := leaf
			for i := 0; i < d; i++ {
				t = term.Op(op, B, t)
			}
			return t
		}
		chainI := func(leaf *term.Term) *term.Term {
			t := leaf
			for i := 0; i < d; i++ {
				t = term.Op("+", I, term.Const(int64(0)), t)
			}
			return t
		}
		var trees []*term.Term
		for _, op := range []string{"not", "p"} {
			trees = append(trees,
				term.Op("or", B, bvar("s"), term.Op("=", B, term.If(chainB(op, bvar("beta")), term.Const(int64(1)), term.Const(int64(2))), term.Const(int64(1)))),
				term.Op("and", B, bvar("s"), chainB(op, term.Op("or", B, bvar("beta"), bvar("t")))),
				term.Op("=", B, term.Op("+", I, term.Const(int64(1)), term.If(chainB(op, bvar("beta")), term.Const(int64(1)), term.Const(int64(2)))), term.Const(int64(2))),
				term.If(chainB(op, term.Op("and", B, bvar("beta"), bvar("s"))), bvar("t"), chainB(op, bvar("s"))))
		}
		trees = append(trees, term.Op("or", B, bvar("s"), term.Op("=", B, chainI(term.If(bvar("beta"), term.Const(int64(1)), term.Const(int64(2)))), term.Const(int64(1)))),
			term.Op("and", B, term.Op("=", B, chainI(term.KeptVar("n", I)), term.Const(int64(1))), bvar("s")))
		for _, t := range trees {
			p := MkProg(t)
			k := len(p.Vars)
			cs := compileAll(r, h, p, []drive.Opt{{}, {CF: true, RN: true, FE: true, RO: true}})
			doms := Doms(p.Vars, false)
			vals := make([]interface{}, k)
			// real Eval per full binding
			for ci := range cs {
				c := &cs[ci]
				evalOf := map[string]drive.Out{}
				drive.ForBindings(doms, vals, func() bool {
					copy(c.f.Vals, vals)
					c.f.Avail = nil
					h.Reset()
					evalOf[fmt.Sprint(vals)] = h.Eval(c.e, c.f)
					return true
				})
				drive.ForBindings(doms, vals, func() bool {
					for mask := 0; mask < 1<<k; mask++ {
						avail := make([]bool, k)
						env := envFor(p.Vars, vals)
						for v := range avail {
							avail[v] = mask&(1<<v) != 0
							if !avail[v] {
								env.Vals[p.Vars[v].Name] = ref.Unknown
							}
						}
						copy(c.f.Vals, vals)
						c.f.Avail = avail
						h.Reset()
						got := h.TryEval(c.e, c.f)
						c.f.Avail = nil
						atomic.AddInt64(&runs, 1)
						kv, kerr := env.Kleene(t)
						dsc := func() map[string]interface{} {
							return caseDesc(trunc(p.Src, 300), c.o, p.Vars, vals, avail, map[string]interface{}{"unary_operators_between": d})
						}
						if kerr != nil {
							continue
						}
						if got.Panic != nil || got.Err != nil {
							r.Violate("deep-climb", sprintf("err%d%s", d, c.o), sprintf("with %d unary operators between the unknown operand and the operator that receives it, TryEval gives %s (three-valued evaluation: %v)", d, got, kv), dsc())
							continue
						}
						if kv != ref.Unknown {
							atomic.AddInt64(&definite, 1)
							if !ref.ValEqual(got.Val, kv) {
								r.Violate("deep-climb", sprintf("kleene%d%s", d, c.o), sprintf("with %d unary operators in between, three-valued evaluation decides %v but TryEval returns %s", d, kv, got), dsc())
							}
							continue
						}
						if isDNE(got.Val) {
							continue
						}
						// a definite answer where Kleene is undecided: every completion on which Eval succeeds must agree
						comp := make([]interface{}, k)
						drive.ForBindings(doms, comp, func() bool {
							for v := range comp {
								if avail[v] && comp[v] != vals[v] {
									return true
								}
							}
							if ev := evalOf[fmt.Sprint(comp)]; ev.Err == nil && ev.Panic == nil && !ref.ValEqual(ev.Val, got.Val) {
								r.Violate("deep-climb", sprintf("contradicted%d%s", d, c.o), sprintf("with %d unary operators in between TryEval answers %s, but Eval returns %v once the unavailable variables are %v", d, got, ev.Val, comp), dsc())
								return false
							}
							return true
						})
					}
					return true
				})
			}
		}
	})
	r.Cov["deep_climb_runs"] = runs
	r.Cov["deep_climb_max_distance"] = maxD
	r.Add(0, runs, runs, runs, definite)
}
