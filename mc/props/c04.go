package props

import (
	"fmt"

	eval "github.com/onheap/eval"

	"verifmc/drive"
	"verifmc/ref"
	"verifmc/rep"
	"verifmc/term"
)

func init() {
	Registry["C04"] = func(r *rep.Run) { tryEvalCheck(r, false) }
	Registry["C05"] = func(r *rep.Run) { tryEvalCheck(r, true) }
}

// illTyped is the wrong-typed value an unavailable variable may turn out to
// have (the statement quantifies over every assignment for which Eval
// succeeds).
func illTyped(ty term.Ty) interface{} {
	if ty == term.TB {
		return int64(5)
	}
	return true
}

func isDNE(v interface{}) bool { return v == eval.DNE }

// tryEvalCheck is the shared explorer of C04 (kleene=false) and C05
// (kleene=true): all programs x configurations x availability splits x value
// assignments.
func tryEvalCheck(r *rep.Run, kleene bool) {
	coreMax, richMax := 7, 6
	r.SetBudget(100e9)
	withIll := false
	if r.Thorough() {
		coreMax, richMax = 8, 6
		withIll = !kleene
		r.SetBudget(1800e9)
	}
	if kleene {
		r.Rule = "every CORE/RICH program up to the node bound (+ the one-node programs only infix notation can write) x 16 optimisation subsets x {events off, ReportEvent} (+ variables resolved by name, + registered variables in a config that allows undefined ones, there also through the context NewCtxFromVars builds from the available values) x every split of its variables into available/unavailable x every value assignment; restricted to pairs in which no operator application over known values fails; oracle: strong-Kleene three-valued reference R2 — R2 definite => TryEval returns exactly that value with nil error; R2 unknown => TryEval returns DNE or a value that Eval confirms on every completion, never an error; TryEvalBool mirrors (ErrDNE iff DNE). non-trivial = (program,split,assignment) triples with at least one unavailable variable and a definite R2 answer"
	} else {
		r.Rule = "every CORE/RICH program up to the node bound (+ the one-node programs only infix notation can write) x 16 optimisation subsets x {events off, ReportEvent} (+ variables resolved by name, + registered variables in a config that allows undefined ones, there also through the context NewCtxFromVars builds from the available values) x every split of its variables into available/unavailable (2^k) x every value assignment to both parts (thorough: plus one ill-typed value per unavailable variable); oracle: a definite TryEval answer equals real Eval on EVERY completion on which Eval succeeds; with everything available TryEval == Eval (value and error-ness); a definite answer on a split stays the same on every larger split; no Get on an unavailable variable. non-trivial = triples with an unavailable variable and a definite TryEval answer"
	}
	r.Assume = []string{"small-scope hypothesis on tree size", "the fetcher truthfully reports availability (Cached) and values"}
	r.Cov["bounds"] = map[string]int{"core_max_nodes": coreMax, "rich_max_nodes": richMax}
	progs, nCore := corpus(coreMax, richMax)
	r.Cov["programs_core"], r.Cov["programs_rich"] = nCore, len(progs)-nCore
	aliasMax := 5
	if r.Thorough() {
		aliasMax = 6
	}
	progs = withAliases(progs, aliasMax)
	progs = withMerged(progs, 5)
	progs = append(progs, loneLeafPrograms()...)
	r.Cov["programs_incl_alias_spellings"] = len(progs)
	hs := harnesses(r.Workers)
	opts := optMatrix(0, 1)
	// variables resolved by name (all share the undefined key), and registered
	// variables in a config that also allows undefined ones
	for _, b := range []int{0, 4, 15} {
		o := drive.FromBits(b)
		o.Undef = 1
		opts = append(opts, o)
	}
	for _, b := range []int{0, 15} {
		o := drive.FromBits(b)
		o.Undef = 3
		opts = append(opts, o)
	}

	done := r.ParallelFor(len(progs), func(w, i int) {
		p := progs[i]
		h := hs[w]
		r.Note(w, p.Src)
		k := len(p.Vars)
		if k > 6 {
			return // (only some of the hand-made wide programs; every enumerated tree has <= 6 variables)
		}
		cs := compileAll(r, h, p, opts)
		// per-variable domains: the two typed values, a non-canonical Go int
		// for integers (a fetcher may hand back exactly what the caller
		// stored), and in the thorough tier one ill-typed value; available
		// and unavailable variables range over the whole domain
		dom := make([][]interface{}, k)
		rad := make([]int, k)
		for v := range p.Vars {
			dom[v] = drive.Domain(p.Vars[v].Ty, false)
			if !kleene && p.Vars[v].Ty == term.TI {
				dom[v] = append(dom[v], int(1))
				if k <= 4 {
					dom[v] = append(dom[v], nil) // an unset / null value
				}
			}
			if withIll {
				dom[v] = append(dom[v], illTyped(p.Vars[v].Ty))
			}
			rad[v] = len(dom[v])
		}
		total := 1
		for v := 0; v < k; v++ {
			total *= rad[v]
		}
		decode := func(idx int, vals []interface{}) {
			for v := 0; v < k; v++ {
				vals[v] = dom[v][idx%rad[v]]
				idx /= rad[v]
			}
		}
		vals := make([]interface{}, k)
		avail := make([]bool, k)
		var st, tr, ex, nt int64
		table := make([]drive.Out, total)
		typedOnly := make([]bool, total)
		for ci := range cs {
			c := &cs[ci]
			// Eval table over all full assignments
			for idx := 0; idx < total; idx++ {
				decode(idx, vals)
				typed := true
				for v, x := idx, 0; x < k; x++ {
					if v%rad[x] >= 2 {
						typed = false
					}
					v /= rad[x]
				}
				typedOnly[idx] = typed
				copy(c.f.Vals, vals)
				c.f.Avail = nil
				h.Reset()
				table[idx] = h.Eval(c.e, c.f)
				ex++
				tr += int64(len(h.Trace)) + 1
			}
			// every split x every typed assignment of the available part
			// definite[mask][assignment of available vars] remembered for monotonicity
			type key struct{ mask, asg int }
			definite := map[key]interface{}{}
			// one context object reused for every TryEval on this program (the
			// usual remote-call-optimisation loop keeps its Ctx): availability
			// and values change between calls, answers must not be remembered
			shared := &eval.Ctx{VariableFetcher: c.f}
			for mask := 0; mask < 1<<k; mask++ { // bit v set => variable v available
				for v := 0; v < k; v++ {
					avail[v] = mask&(1<<v) != 0
				}
				// enumerate assignments to the available variables (unavailable ones fixed at index 0)
				for idx := 0; idx < total; idx++ {
					skip := false
					for v, x := idx, 0; x < k; x++ {
						if !avail[x] && v%rad[x] != 0 {
							skip = true
							break
						}
						// available variables stay inside the typed fragment
						// (and/or operands are boolean-typed or failing); the
						// ill-typed value only occurs in completions
						if avail[x] && withIll && v%rad[x] == rad[x]-1 {
							skip = true
							break
						}
						v /= rad[x]
					}
					if skip {
						continue
					}
					asg := idx
					decode(idx, vals)
					copy(c.f.Vals, vals)
					c.f.Avail = avail
					h.Reset()
					got := h.TryEval(c.e, c.f)
					if c.o.Events == 0 {
						h.Reset()
						gs := h.TryEvalCtx(c.e, shared)
						ex++
						if !drive.SameOutcome(gs, got) || (got.Err == nil && isDNE(got.Val) != isDNE(gs.Val)) {
							r.Violate("reused-context", p.Src+c.o.String(), sprintf("TryEval on a reused Ctx gives %s where a fresh Ctx gives %s (an answer was remembered across calls)", gs, got), caseDesc(p.Src, c.o, p.Vars, vals, avail, nil))
						}
						h.Reset()
					}
					// user fetchers built by embedding a library fetcher and
					// overriding Cached/Get must be honoured just the same
					if c.o.Events == 0 && (c.o.OptBits() == 0 || c.o.OptBits() == 15) {
						for kind := 0; kind < 2; kind++ {
							h.Reset()
							var g2 drive.Out
							if kind == 0 {
								g2 = h.TryEval(c.e, embedMap{MapVarFetcher: eval.MapVarFetcher{}, f: c.f})
							} else {
								g2 = h.TryEval(c.e, embedSlice{SliceVarFetcher: make(eval.SliceVarFetcher, 2), f: c.f})
							}
							ex++
							if !drive.SameOutcome(g2, got) || (got.Err == nil && isDNE(got.Val) != isDNE(g2.Val)) {
								r.Violate("embedding-fetcher", p.Src+c.o.String(), sprintf("a fetcher that embeds a library fetcher and overrides Cached/Get gets %s where the plain fetcher gets %s", g2, got), caseDesc(p.Src, c.o, p.Vars, vals, avail, nil))
							}
						}
						h.Reset()
					}
					ex++
					st++
					tr += int64(len(h.Trace)) + 1
					d := func(extra map[string]interface{}) map[string]interface{} {
						return caseDesc(p.Src, c.o, p.Vars, vals, avail, extra)
					}
					// the context the library builds from exactly the available
					// values (NewCtxFromVars chooses the fetcher from the config)
					if c.o.Undef == 3 && typedOnly[idx] && got.Panic == nil {
						supplied := map[string]interface{}{}
						for v := 0; v < k; v++ {
							if avail[v] {
								supplied[p.Vars[v].Name] = vals[v]
							}
						}
						var lv eval.Value
						var lerr error
						pn, site := drive.Fence(func() { lv, lerr = c.e.TryEval(eval.NewCtxFromVars(c.cfg, supplied)) })
						ex++
						lib := drive.Out{Val: lv, Err: lerr, Panic: pn, Site: site}
						if !drive.SameOutcome(lib, got) || (got.Err == nil && isDNE(got.Val) != isDNE(lib.Val)) {
							r.Violate("library-context", p.Src+c.o.String(), sprintf("TryEval with the context NewCtxFromVars builds from the available values gives %s, with a fetcher reporting the same availability it gives %s", lib, got), d(map[string]interface{}{"supplied": fmt.Sprint(supplied)}))
						}
					}
					if got.Panic != nil {
						r.Violate("panic", p.Src+c.o.String(), sprintf("TryEval panics: %v at %s", got.Panic, got.Site), d(nil))
						continue
					}
					if len(h.Protocol) > 0 {
						r.Violate("fetcher-protocol", p.Src+c.o.String(), h.Protocol[0], d(nil))
					}
					def := got.Err == nil && !isDNE(got.Val)
					if def && mask != 1<<k-1 {
						nt++
					}
					// --- C04 oracles (also run under C05 for definite answers R2 calls unknown) ---
					confirm := func(kind string) bool {
						okAll := true
						for full := 0; full < total; full++ {
							// completion must agree with the available assignment
							match := true
							f, a := full, idx
							for v := 0; v < k; v++ {
								if avail[v] && f%rad[v] != a%rad[v] {
									match = false
									break
								}
								f /= rad[v]
								a /= rad[v]
							}
							if !match || table[full].Err != nil || table[full].Panic != nil {
								continue
							}
							if !ref.ValEqual(table[full].Val, got.Val) {
								cv := make([]interface{}, k)
								decode(full, cv)
								r.Violate(kind, p.Src+c.o.String(), sprintf("TryEval answers %v with %d variable(s) unavailable, but Eval returns %v once they are fetched", got.Val, k-popcount(mask), table[full].Val),
									d(map[string]interface{}{"completion": drive.BindingMap(p.Vars, cv, nil), "tryeval": got.String(), "eval": table[full].String()}))
								okAll = false
								break
							}
						}
						return okAll
					}
					if !kleene {
						if def {
							confirm("contradicted")
							definite[key{mask, asg}] = got.Val
							// monotonicity: every sub-split with the same values on its available part
							for sub := mask; ; sub = (sub - 1) & mask {
								if sub != mask {
									// the same values restricted to the smaller available set
									rest, mul, x := 0, 1, asg
									for v := 0; v < k; v++ {
										if sub&(1<<v) != 0 {
											rest += (x % rad[v]) * mul
										}
										x /= rad[v]
										mul *= rad[v]
									}
									if v, ok := definite[key{sub, rest}]; ok && !ref.ValEqual(v, got.Val) {
										r.Violate("non-monotone", p.Src+c.o.String(), sprintf("TryEval answered %v with fewer variables available and answers %v with more", v, got.Val), d(nil))
									}
								}
								if sub == 0 {
									break
								}
							}
						}
						if mask == 1<<k-1 {
							full := table[idx]
							same := (got.Err != nil) == (full.Err != nil) && (got.Err != nil || ref.ValEqual(got.Val, full.Val))
							if !same {
								r.Violate("all-available", p.Src+c.o.String(), sprintf("with every variable available TryEval=%s but Eval=%s", got, full), d(nil))
							}
						}
						continue
					}
					// --- C05 oracle ---
					env := envFor(p.Vars, vals)
					for v := 0; v < k; v++ {
						if !avail[v] {
							env.Vals[p.Vars[v].Name] = ref.Unknown
						}
					}
					kv, kerr := env.Kleene(p.T)
					if kerr != nil {
						continue // a sub-expression fails: outside the domain
					}
					if kv != ref.Unknown {
						if got.Err != nil || !ref.ValEqual(got.Val, kv) {
							r.Violate("less-informative", p.Src+c.o.String(), sprintf("three-valued evaluation decides %v but TryEval returns %s", kv, got), d(map[string]interface{}{"kleene": sprintf("%v", kv), "tryeval": got.String()}))
						}
					} else {
						if got.Err != nil {
							r.Violate("error-instead-of-DNE", p.Src+c.o.String(), sprintf("TryEval cannot decide but returns an error instead of DNE: %v", got.Err), d(nil))
						} else if def {
							confirm("default-value")
						}
					}
					if p.T.Ty == B && c.o.Events == 0 {
						h.Reset()
						b, err := tryEvalBool(c.e, c.f)
						ex++
						switch {
						case kv == ref.Unknown && !def:
							if err != eval.ErrDNE {
								r.Violate("tryevalbool", p.Src+c.o.String(), sprintf("TryEval gives DNE but TryEvalBool returns (%v,%v) instead of ErrDNE", b, err), d(nil))
							}
						case kv != ref.Unknown:
							if err != nil || b != kv.(bool) {
								r.Violate("tryevalbool", p.Src+c.o.String(), sprintf("three-valued evaluation decides %v but TryEvalBool returns (%v,%v)", kv, b, err), d(nil))
							}
						}
					}
				}
			}
		}
		r.Add(st, tr, ex, ex, nt)
		if i%1499 == 0 {
			r.Sample(12, map[string]interface{}{"program": p.Src, "configs": len(cs), "variables": k, "splits": 1 << k})
		}
	})
	r.Cov["programs_completed"] = done
	r.Finish()
}

// embedMap / embedSlice: user fetchers that embed a library fetcher (empty)
// and override the whole protocol.
type embedMap struct {
	eval.MapVarFetcher
	f *drive.Fetcher
}

func (e embedMap) Get(k eval.VariableKey, s string) (eval.Value, error) { return e.f.Get(k, s) }
func (e embedMap) Cached(k eval.VariableKey, s string) bool             { return e.f.Cached(k, s) }

type embedSlice struct {
	eval.SliceVarFetcher
	f *drive.Fetcher
}

func (e embedSlice) Get(k eval.VariableKey, s string) (eval.Value, error) { return e.f.Get(k, s) }
func (e embedSlice) Cached(k eval.VariableKey, s string) bool             { return e.f.Cached(k, s) }

func popcount(x int) int {
	n := 0
	for ; x != 0; x &= x - 1 {
		n++
	}
	return n
}

func tryEvalBool(e *eval.Expr, f eval.VariableFetcher) (b bool, err error) {
	defer func() {
		if p := recover(); p != nil {
			err = &drive.PanicErr{V: p}
		}
	}()
	return e.TryEvalBool(&eval.Ctx{VariableFetcher: f})
}
