package props

import (
	"context"
	"fmt"
	"os"
	"os/exec"
	"path/filepath"
	"strings"
	"sync"
	"sync/atomic"
	"time"

	eval "github.com/onheap/eval"

	"verifmc/drive"
	"verifmc/rep"
	"verifmc/term"
)

func init() { Registry["C15"] = c15 }

var X = term.TX

func c15Alphabet(full bool, binops []string) *term.Alphabet {
	a := &term.Alphabet{Leaves: map[term.Ty][]*term.Term{}}
	if full {
		a.Leaves[X] = []*term.Term{
			{K: term.KVar, Name: "a", Ty: X}, {K: term.KVar, Name: "b", Ty: X},
			{K: term.KConst, Val: int64(1), Lit: "1", Ty: X}, {K: term.KConst, Val: int64(-1), Lit: "-1", Ty: X},
			{K: term.KConst, Val: "s", Lit: `"s"`, Ty: X}, {K: term.KConst, Val: true, Lit: "true", Ty: X},
			{K: term.KConst, Val: []int64{1, -2, 3}, Lit: "(1 -2 3)", Ty: X},
		}
	} else {
		a.Leaves[X] = []*term.Term{{K: term.KVar, Name: "a", Ty: X}}
	}
	for _, op := range binops {
		a.Ops = append(a.Ops, sig(op, X, X, X))
	}
	a.Ops = append(a.Ops, sig("!", X, X), sig("f", X, X), sig("g", X, X, X), sig("h", X),
		term.OpSig{Name: "if", Args: []term.Ty{X, X, X}, Ret: X, If: true})
	return a
}

var c15ClassOps = []string{"*", "/", "+", "-", "=", "<", "&&", "||"}
var c15AllBin = []string{"*", "/", "%", "+", "-", "=", "==", "!=", "<", ">", "<=", ">=", "&", "&&", "|", "||"}

type c15fetch struct{ a, b eval.Value }

func (f c15fetch) Get(_ eval.VariableKey, s string) (eval.Value, error) {
	if s == "a" {
		return f.a, nil
	}
	return f.b, nil
}
func (f c15fetch) Set(eval.VariableKey, string, eval.Value) error { return nil }
func (f c15fetch) Cached(eval.VariableKey, string) bool           { return true }

func c15(r *rep.Run) {
	fullMax, shapeMax, aliasMax := 5, 7, 4
	r.SetBudget(300e9)
	if r.Thorough() {
		fullMax, shapeMax, aliasMax = 6, 9, 5
		r.SetBudget(1800e9)
	}
	r.Rule = "every expression tree up to the node bound over (FULL) one binary operator per precedence class incl. the non-commutative ones (* / + - = < && ||), unary !, calls f(x) g(x,y) h(), if(c,a,b), atoms {a,b,1,-1,\"s\",true,[1 2]}; (SHAPE) the same operators over a single atom up to a larger bound (every nesting/associativity shape); (ALIAS) all 16 binary operator spellings; each rendered to infix four ways: minimal parentheses derived from the stated precedence and left associativity, fully parenthesised, redundant parentheses around atoms and calls with wide spacing, and minimal with no blanks next to parens/commas and `!ident` glued. String literals whose content looks like infix syntax (!, !=, !a, brackets, ...) in every operand position; trees calling registered operators also in undefined-variable mode (variables unregistered / registered). Oracle: Compile(infix rendering) succeeds and its Dump and DumpTable equal those of the prefix form; both evaluate to the same outcome on 4 bindings. Operands of unary ! that are themselves ! or lower-precedence operators are parenthesised (the statement defines binary associativity only). non-trivial = renderings in which minimal parenthesisation differs from full parenthesisation"
	r.Assume = []string{"the minimal-parentheses renderer (mc/props/infix.go) implements the precedence table of the statement: * / % > + - > ! > comparisons > && > ||, binary operators left associative"}
	r.Cov["bounds"] = map[string]int{"full_nodes": fullMax, "shape_nodes": shapeMax, "alias_nodes": aliasMax}
	var progs []*term.Term
	g := term.NewGen(c15Alphabet(true, c15ClassOps))
	for _, t := range g.UpTo([]term.Ty{X}, fullMax) {
		progs = append(progs, t)
	}
	nFull := len(progs)
	g2 := term.NewGen(c15Alphabet(false, c15ClassOps))
	for s := fullMax + 1; s <= shapeMax; s++ {
		for _, t := range g2.Exactly(X, s) {
			progs = append(progs, t.Clone())
		}
	}
	nShape := len(progs) - nFull
	g3 := term.NewGen(c15Alphabet(false, c15AllBin))
	for _, t := range g3.UpTo([]term.Ty{X}, aliasMax) {
		progs = append(progs, t)
	}
	// named (call syntax) builtins of every arity, mixed with infix operators
	{
		nb := &term.Alphabet{Leaves: map[term.Ty][]*term.Term{X: {{K: term.KVar, Name: "a", Ty: X}, {K: term.KConst, Val: int64(1), Lit: "1", Ty: X}}}}
		nb.Ops = append(nb.Ops, sig("+", X, X, X), sig("&&", X, X, X), sig("==", X, X, X),
			sig("eq", X, X, X), sig("eq", X, X, X, X), sig("eq", X, X, X, X, X), sig("and", X, X, X, X), sig("or", X, X, X), sig("add", X, X, X, X), sig("mul", X, X, X),
			sig("between", X, X, X, X), sig("not", X, X), sig("mod", X, X, X), sig("xor", X, X, X, X), sig("h", X))
		gnb := term.NewGen(nb)
		nbMax := 6
		if r.Thorough() {
			nbMax = 7
		}
		for _, t := range gnb.UpTo([]term.Ty{X}, nbMax) {
			progs = append(progs, t)
		}
	}
	// registered variables that share their name with an operator or keyword
	{
		named := &term.Alphabet{Leaves: map[term.Ty][]*term.Term{X: {
			{K: term.KVar, Name: "version", Ty: X}, {K: term.KVar, Name: "td_date", Ty: X}, {K: term.KVar, Name: "in", Ty: X}, {K: term.KVar, Name: "date", Ty: X}, {K: term.KConst, Val: int64(1), Lit: "1", Ty: X},
			// identifiers that do not start with an ASCII letter (glued to ! in one rendering)
			{K: term.KVar, Name: "名前", Ty: X}, {K: term.KVar, Name: "älter", Ty: X}, {K: term.KVar, Name: "_u", Ty: X}, {K: term.KVar, Name: "étudiant.actif", Ty: X}}}}
		for _, op := range []string{"+", "<", "&&"} {
			named.Ops = append(named.Ops, sig(op, X, X, X))
		}
		named.Ops = append(named.Ops, sig("!", X, X), sig("f", X, X), sig("g", X, X, X))
		gn := term.NewGen(named)
		for _, t := range gn.UpTo([]term.Ty{X}, 4) {
			progs = append(progs, t)
		}
	}
	// list literals of every shape next to every kind of neighbour
	for _, l := range []*term.Term{term.Const([]int64{}), term.Const([]int64{-1}), term.Const([]int64{-1, -2}), term.Const([]int64{3, -2, 7}), term.Const([]string{"s", "t u"}), term.Const([]string{"-1", "a"}), term.Const([]string{",", ";", "|"}), term.Const([]string{"(", "]", " ", ""}), term.Const([]string{"[1 2]", "f(a)", "a , b"})} {
		a := term.Var("a", X)
		for _, t := range []*term.Term{
			term.Op("f", X, l), term.Op("g", X, a, l), term.Op("g", X, l, term.Const(int64(-1))), term.Op("=", X, a, l), term.Op("-", X, a, term.Op("g", X, term.Const(int64(-1)), l)),
			term.If(term.Op("g", X, a, l), l, term.Op("-", X, term.Const(int64(-1)), term.Const(int64(-1)))),
		} {
			progs = append(progs, t.Clone())
		}
	}
	// string literals whose CONTENT looks like infix syntax (operators, a glued
	// !ident naming a variable, brackets), in every operand position
	for _, str := range []string{"!", "!=", "!a", "!b", "! a", "!(", "!!", "-", "&&", "||", "a", "f", "(", ")", "1", "a,b", "f(a)", "[", "=="} {
		a := term.Var("a", X)
		lit := term.Const(str)
		for _, t := range []*term.Term{
			term.Op("=", X, a, lit), term.Op("=", X, lit, a), term.Op("g", X, lit, a), term.Op("f", X, lit), term.Op("overlap", X, a, term.Const([]string{str, "x"})),
			term.If(term.Op("=", X, a, lit), lit, term.Var("b", X)), term.Op("&&", X, term.Op("=", X, a, lit), term.Op("!", X, term.Op("=", X, term.Var("b", X), lit))),
			term.Op("+", X, term.Op("f", X, lit), term.Const(int64(1))),
		} {
			progs = append(progs, t.Clone())
		}
	}
	r.Cov["trees_full"], r.Cov["trees_shape"], r.Cov["trees_alias"] = nFull, nShape, len(progs)-nFull-nShape

	hs := harnesses(r.Workers)
	for _, h := range hs {
		h.Register("f", func(a []interface{}) (interface{}, error) { return a[0], nil })
		h.Register("g", func(a []interface{}) (interface{}, error) { return a[len(a)-1], nil })
		h.Register("h", func(a []interface{}) (interface{}, error) { return int64(7), nil })
	}
	vars := []term.VarDecl{{Name: "a", Ty: X}, {Name: "b", Ty: X}, {Name: "version", Ty: X}, {Name: "td_date", Ty: X}, {Name: "in", Ty: X}, {Name: "date", Ty: X},
		{Name: "名前", Ty: X}, {Name: "älter", Ty: X}, {Name: "_u", Ty: X}, {Name: "étudiant.actif", Ty: X}}
	bindings := []c15fetch{{int64(3), int64(2)}, {true, false}, {int64(0), int64(5)}, {"s", int64(1)}}
	var renderings, nontrivial, evals int64
	var body func(w, i int)
	body = func(w, i int) {
		t := progs[i]
		if t.K != term.KOp && t.K != term.KIf {
			return
		}
		h := hs[w]
		psrc := t.Src()
		r.Note(w, psrc)
		// undefined-variable mode (variables unregistered / registered): only
		// the trees that call a registered operator, up to 5 nodes
		undefs := []int{0}
		if t.Size() <= 5 {
			calls := false
			t.Walk(func(n *term.Term) {
				if n.K == term.KOp && (n.Name == "f" || n.Name == "g" || n.Name == "h") {
					calls = true
				}
			})
			if calls {
				undefs = []int{0, 1, 3}
			}
		}
		for _, undef := range undefs {
			po := drive.Opt{Undef: undef}
			pe, err := h.Compile(h.NewConfig(vars, po), psrc, 0)
			if err != nil {
				continue // prefix form itself does not compile (cannot happen for this grammar)
			}
			want := eval.Dump(pe) + "\n" + eval.DumpTable(pe, false)
			full := Infix(t, 1)
			seen := map[string]bool{}
			for style := 0; style < 4; style++ {
				isrc := Infix(t, style)
				if seen[isrc] {
					continue
				}
				seen[isrc] = true
				atomic.AddInt64(&renderings, 1)
				if style == 0 && isrc != full {
					atomic.AddInt64(&nontrivial, 1)
				}
				io := drive.Opt{Infix: true, Undef: undef}
				ie, err := h.Compile(h.NewConfig(vars, io), isrc, 0)
				d := map[string]interface{}{"prefix": psrc, "infix": isrc, "undefined_variable_mode": undef, "style": []string{"minimal parentheses", "fully parenthesised", "redundant parentheses, wide", "minimal, glued"}[style]}
				if err != nil {
					r.Violate("infix-does-not-compile", isrc, sprintf("the infix rendering %q of %s does not compile: %v", isrc, psrc, err), d)
					continue
				}
				got := eval.Dump(ie) + "\n" + eval.DumpTable(ie, false)
				if got != want {
					d["infix_tree"], d["prefix_tree"] = eval.Dump(ie), eval.Dump(pe)
					r.Violate("infix-tree-differs", isrc, sprintf("infix %q compiles to a different tree than its prefix form %s", isrc, psrc), d)
					continue
				}
				for _, b := range bindings {
					h.Reset()
					x := h.Eval(pe, b)
					y := h.Eval(ie, b)
					atomic.AddInt64(&evals, 2)
					if !drive.SameOutcome(x, y) {
						r.Violate("infix-evaluates-differently", isrc, sprintf("infix %q evaluates to %s, prefix %s to %s", isrc, y, psrc, x), d)
					}
				}
			}
		}
		if i%9973 == 0 {
			r.Sample(12, map[string]interface{}{"prefix": psrc, "infix_minimal": Infix(t, 0), "infix_full": Infix(t, 1)})
		}
	}
	done := r.ParallelFor(len(progs), func(w, i int) {
		// Dump / DumpTable of what Compile returned run unfenced inside body: a
		// panic raised by the library there is a malformed program
		if pn, site := drive.Fence(func() { body(w, i) }); pn != nil {
			if site == "?" {
				panic(pn) // the harness's own fault
			}
			r.Violate("panic", site, sprintf("compiling and dumping %s (prefix and infix renderings) panics in the library: %v (at %s)", progs[i].Src(), pn, site), map[string]interface{}{"prefix": progs[i].Src()})
		}
	})
	// wide calls: a named call with n arguments (n around the 127-operand
	// limit) is accepted or rejected exactly like its prefix form, and compiles
	// to the same tree; also nested one level down and next to an infix operator
	{
		h := hs[0]
		var wideN int64
		for _, name := range []string{"add", "and", "eq", "g", "mul", "or"} {
			for _, n := range []int{1, 2, 3, 5, 64, 125, 126, 127, 128, 129, 200} {
				args := make([]string, n)
				for k := range args {
					switch {
					case name == "and" || name == "or":
						args[k] = []string{"true", "false"}[k%2]
					case k%2 == 0:
						args[k] = "a"
					default:
						args[k] = fmt.Sprint(k)
					}
				}
				call := name + "(" + strings.Join(args, ", ") + ")"
				pcall := "(" + name + " " + strings.Join(args, " ") + ")"
				for shape := 0; shape < 3; shape++ {
					isrc, psrc := call, pcall
					switch shape {
					case 1:
						isrc, psrc = "f("+call+")", "(f "+pcall+")"
					case 2:
						isrc, psrc = call+" == 1", "(== "+pcall+" 1)"
					}
					pe, perr := h.Compile(h.NewConfig(vars, drive.Opt{}), psrc, 0)
					ie, ierr := h.Compile(h.NewConfig(vars, drive.Opt{Infix: true}), isrc, 0)
					wideN++
					d := map[string]interface{}{"call": name, "arguments": n, "infix": trunc(isrc, 120), "prefix": trunc(psrc, 120)}
					switch {
					case (perr == nil) != (ierr == nil):
						r.Violate("infix-does-not-compile", "wide"+name+fmt.Sprint(n, shape), sprintf("%s with %d arguments: the prefix form gives error %v, the infix form gives error %v", name, n, perr, ierr), d)
					case perr == nil && eval.Dump(pe)+eval.DumpTable(pe, false) != eval.Dump(ie)+eval.DumpTable(ie, false):
						r.Violate("infix-tree-differs", "wide"+name+fmt.Sprint(n, shape), sprintf("%s with %d arguments compiles to a different tree in infix notation", name, n), d)
					}
				}
			}
		}
		atomic.AddInt64(&renderings, wideN)
		r.Cov["wide_call_pairs"] = wideN
	}
	r.External(func() { c15Race(r) })
	r.Cov["trees_completed"] = done
	r.Cov["renderings"] = renderings
	r.Add(int64(len(progs)), renderings+evals, renderings, renderings+evals, nontrivial)
	r.Finish()
}

// C15FreeRun: real goroutines compile infix renderings concurrently on one
// shared config (free-running, built with -race by the caller): every result
// must be the tree of the prefix form, compiled sequentially beforehand. Infix
// parsing that keeps work state outside the call shows up as a data race or
// as a wrong tree.
func C15FreeRun(iters int) (string, error) {
	mk := func(infix bool) *eval.Config {
		cfg := eval.NewConfig()
		for i, n := range []string{"a", "b"} {
			cfg.VariableKeyMap[n] = eval.VariableKey(i + 1)
		}
		cfg.OperatorMap["f"] = func(_ *eval.Ctx, p []eval.Value) (eval.Value, error) { return p[0], nil }
		cfg.OperatorMap["g"] = func(_ *eval.Ctx, p []eval.Value) (eval.Value, error) { return p[len(p)-1], nil }
		cfg.OperatorMap["h"] = func(_ *eval.Ctx, p []eval.Value) (eval.Value, error) { return int64(7), nil }
		if infix {
			cfg.CompileOptions[eval.InfixNotation] = true
		}
		return cfg
	}
	cfgP, cfgI := mk(false), mk(true)
	var srcs, wants []string
	g := term.NewGen(c15Alphabet(true, c15ClassOps))
	for _, t := range g.UpTo([]term.Ty{X}, 4) {
		if t.K != term.KOp && t.K != term.KIf {
			continue
		}
		pe, err := eval.Compile(cfgP, t.Src())
		if err != nil {
			continue
		}
		for style := 0; style < 3; style += 2 {
			srcs = append(srcs, Infix(t, style))
			wants = append(wants, eval.Dump(pe))
		}
	}
	// a few deep ones (long operator and output stacks)
	deep := "a"
	pdeep := "a"
	for i := 0; i < 12; i++ {
		deep = "(" + deep + " + 1) * (b - " + fmt.Sprint(i) + ")"
		pdeep = "(* (+ " + pdeep + " 1) (- b " + fmt.Sprint(i) + "))"
	}
	if pe, err := eval.Compile(cfgP, pdeep); err == nil {
		for k := 0; k < 8; k++ {
			srcs = append(srcs, deep)
			wants = append(wants, eval.Dump(pe))
		}
	}
	const G = 8
	var wg sync.WaitGroup
	errs := make(chan error, G)
	for k := 0; k < G; k++ {
		k := k
		wg.Add(1)
		go func() {
			defer wg.Done()
			for it := 0; it < iters; it++ {
				for j := range srcs {
					i := (j + k*len(srcs)/G) % len(srcs)
					var ie *eval.Expr
					var err error
					func() {
						defer func() {
							if r := recover(); r != nil {
								err = fmt.Errorf("PANIC(%v)", r)
							}
						}()
						ie, err = eval.Compile(cfgI, srcs[i])
					}()
					if err != nil {
						errs <- fmt.Errorf("concurrent Compile of infix %q fails: %v (its prefix form compiles)", srcs[i], err)
						return
					}
					if got := eval.Dump(ie); got != wants[i] {
						errs <- fmt.Errorf("concurrent Compile of infix %q gives the tree %s, its prefix form gives %s", srcs[i], got, wants[i])
						return
					}
				}
			}
		}()
	}
	wg.Wait()
	select {
	case err := <-errs:
		return "", err
	default:
	}
	return fmt.Sprintf("race pass: %d goroutines x %d rounds over %d infix sources on one shared config, no race reported, every tree equal to the prefix form's", G, iters, len(srcs)), nil
}

// c15Race builds the free-running harness with the race detector and runs it.
func c15Race(r *rep.Run) {
	bin := filepath.Join(rep.Root, ".bin", sprintf("racepass15.%d", os.Getpid()))
	defer os.Remove(bin)
	args := []string{"build", "-race"}
	if mf := os.Getenv("VERIF_MODFILE"); mf != "" {
		args = append(args, "-modfile="+mf)
	}
	build := exec.Command("go", append(args, "-o", bin, "./cmd/racepass")...)
	build.Dir = filepath.Join(rep.Root, "mc")
	build.Env = append(os.Environ(), "CGO_ENABLED=1", "GOFLAGS=-mod=mod", "GOPROXY=off", "GOSUMDB=off", "GOTOOLCHAIN=local")
	if out, err := build.CombinedOutput(); err != nil {
		r.Cov["race_pass"] = "not run: race-instrumented build failed: " + firstLines(string(out), 3)
		return
	}
	iters := "3"
	if r.Thorough() {
		iters = "30"
	}
	limit := 15 * time.Minute
	if r.Thorough() {
		limit = 60 * time.Minute
	}
	cctx, cancel := context.WithTimeout(context.Background(), limit)
	defer cancel()
	cmd := exec.CommandContext(cctx, bin, "C15", iters)
	cmd.Env = append(os.Environ(), "GORACE=halt_on_error=0 exitcode=66")
	out, err := cmd.CombinedOutput()
	text := string(out)
	if cctx.Err() != nil {
		r.Violate("race-pass-timeout", "racepass", sprintf("the free-running concurrent harness did not finish within %v", limit), map[string]interface{}{"output": firstLines(text, 40)})
		return
	}
	if strings.Contains(text, "WARNING: DATA RACE") {
		r.Violate("data-race", firstRaceSite(text), "the Go race detector reports a data race between concurrent compilations of infix sources (the tree an infix source compiles to must not depend on what else is being compiled)", map[string]interface{}{"report": firstLines(text, 60)})
		r.Cov["race_pass"] = "DATA RACE reported"
		return
	}
	if err != nil {
		r.Violate("concurrent-infix-compile", "racepass", "free-running concurrent compilation of infix sources: "+firstLines(text, 6), map[string]interface{}{"output": firstLines(text, 60)})
		return
	}
	r.Cov["race_pass"] = strings.TrimSpace(lastLine(text))
}
