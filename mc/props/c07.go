package props

import (
	"context"
	"fmt"
	"os"
	"os/exec"
	"path/filepath"
	"strings"
	"sync"
	"sync/atomic"
	"time"

	eval "github.com/onheap/eval"

	"verifmc/drive"
	"verifmc/ref"
	"verifmc/rep"
	"verifmc/sched"
	"verifmc/term"
)

func init() { Registry["C07"] = c07 }

// ---- per-call environment (one per call, never shared) ----

type c7f struct {
	idx   map[string]int
	vals  []interface{}
	avail []bool
	trace []ref.Ev
	notes []string
	point func(label string)
	expr  *eval.Expr // the expression being evaluated (for the re-entrant operator)
	depth int
}

func (f *c7f) Get(k eval.VariableKey, s string) (eval.Value, error) {
	if f.point != nil {
		f.point("get:" + s)
	}
	i, ok := f.idx[s]
	if !ok {
		return nil, fmt.Errorf("no variable %s", s)
	}
	v := f.vals[i]
	if e, isErr := v.(error); isErr {
		f.trace = append(f.trace, ref.Ev{Get: true, Name: s, Err: e})
		return nil, e
	}
	f.trace = append(f.trace, ref.Ev{Get: true, Name: s, Res: v})
	return v, nil
}
func (f *c7f) Set(eval.VariableKey, string, eval.Value) error { return nil }
func (f *c7f) Cached(k eval.VariableKey, s string) bool {
	if f.point != nil {
		f.point("cached:" + s)
	}
	i, ok := f.idx[s]
	return ok && (f.avail == nil || f.avail[i])
}

// c7op wraps a registered operator: it snapshots its arguments, yields to
// the scheduler, then re-reads the live argument slice — if the engine hands
// out a buffer shared between calls, another thread has overwritten it by
// now.
func c7op(name string, fn ref.CustomFn) eval.Operator {
	return func(ctx *eval.Ctx, params []eval.Value) (eval.Value, error) {
		args := make([]interface{}, len(params))
		for i, p := range params {
			args[i] = p
		}
		var f *c7f
		if ctx != nil {
			f, _ = ctx.VariableFetcher.(*c7f)
		}
		if f != nil && f.point != nil {
			f.point("op:" + name)
		}
		for i := range params {
			if !ref.ValEqual(params[i], args[i]) {
				if f != nil {
					f.notes = append(f.notes, fmt.Sprintf("argument %d of %s changed from %v to %v while the operator was running", i, name, args[i], params[i]))
				}
			}
		}
		res, err := fn(args)
		if f != nil {
			f.trace = append(f.trace, ref.Ev{Name: name, Args: args, Res: res, Err: err})
		}
		return res, err
	}
}

// c7rec is a registered operator that evaluates the very expression it is
// part of (one level deep, with its own context and shifted bindings) while
// the outer evaluation is still in progress: re-entrancy from the same
// goroutine.
func c7rec(ctx *eval.Ctx, params []eval.Value) (eval.Value, error) {
	f, _ := ctx.VariableFetcher.(*c7f)
	v, ok := params[0].(int64)
	if f == nil || !ok {
		return nil, ref.ErrBuiltin
	}
	if f.point != nil {
		f.point("op:rec")
	}
	if f.depth >= 1 || f.expr == nil {
		return v + 1, nil
	}
	inner := &c7f{idx: f.idx, avail: f.avail, point: f.point, expr: f.expr, depth: f.depth + 1, vals: make([]interface{}, len(f.vals))}
	for i, x := range f.vals {
		if n, isInt := x.(int64); isInt {
			inner.vals[i] = n + 10
		} else {
			inner.vals[i] = x
		}
	}
	res, err := f.expr.Eval(&eval.Ctx{VariableFetcher: inner})
	f.trace = append(f.trace, ref.Ev{Name: "rec-inner", Res: res, Err: err})
	f.trace = append(f.trace, inner.trace...)
	if err != nil {
		return nil, err
	}
	n, _ := res.(int64)
	return v*1000 + n, nil
}

// c7recSame re-enters the expression it is part of with THE CONTEXT IT WAS
// HANDED (same *Ctx, same bindings), one level deep, while the outer
// evaluation has operands pending.
func c7recSame(ctx *eval.Ctx, params []eval.Value) (eval.Value, error) {
	f, _ := ctx.VariableFetcher.(*c7f)
	v, ok := params[0].(int64)
	if f == nil || !ok {
		return nil, ref.ErrBuiltin
	}
	if f.point != nil {
		f.point("op:recsame")
	}
	if f.depth >= 1 || f.expr == nil {
		return v + 1, nil
	}
	f.depth++
	res, err := f.expr.Eval(ctx)
	f.depth--
	f.trace = append(f.trace, ref.Ev{Name: "recsame-inner", Res: res, Err: err})
	if err != nil {
		return nil, err
	}
	n, _ := res.(int64)
	return v*1000 + n, nil
}

// ---- corpus ----

type C7Call struct {
	Kind  string // eval | tryeval | dump | table | tableall
	Name  string
	Vals  []interface{}
	Avail []bool
	// Store selects the context of a call on a variable-free program:
	// "none": a Ctx without a VariableFetcher carrying only a request-scoped
	// context.Context; "own": a Ctx with its own fresh MapVarFetcher.
	Store string
	Level int64 // the request-scoped value the `memo` operator reads
}

type c7levelKey struct{}

// c7memo is an operator that reads a request-scoped value from ctx.Ctx and
// memoises it in the evaluation context's variable store when there is one
// (a store that belongs to that one context).
func c7memo(ctx *eval.Ctx, _ []eval.Value) (eval.Value, error) {
	const key = "memo:level"
	hasStore := ctx != nil && ctx.VariableFetcher != nil
	if hasStore && ctx.Cached(eval.UndefinedVarKey, key) {
		return ctx.Get(eval.UndefinedVarKey, key)
	}
	var level int64
	if ctx != nil && ctx.Ctx != nil {
		level, _ = ctx.Ctx.Value(c7levelKey{}).(int64)
	}
	if hasStore {
		if err := ctx.Set(eval.UndefinedVarKey, key, level); err != nil {
			return nil, err
		}
	}
	return level, nil
}

// C7Buf is a list binding whose backing array the caller REUSES between the
// calls of one history (each call with its own context): the call overwrites
// the history's buffer for that variable with Content and binds it; in
// isolation it binds a fresh copy.
type C7Buf struct {
	Content interface{}
	// Len > 0: the call binds only the first Len elements (a sub-slice with
	// spare capacity behind it); the rest of the buffer is the caller's own
	Len int
}

var c7keep []interface{} // isolated copies stay reachable so that no address is ever reused

// c7resolve: bufs == nil means isolation; otherwise bufs holds the history's
// buffers per variable index (allocated on first use).
func c7resolve(vals []interface{}, bufs map[int]interface{}) []interface{} {
	out := make([]interface{}, len(vals))
	for i, v := range vals {
		b, ok := v.(C7Buf)
		if !ok {
			out[i] = v
			continue
		}
		switch c := b.Content.(type) {
		case []int64:
			var dst []int64
			if bufs == nil {
				dst = make([]int64, len(c))
				c7keepMu.Lock()
				c7keep = append(c7keep, dst)
				c7keepMu.Unlock()
			} else if x, ok := bufs[i]; ok {
				dst = x.([]int64)
			} else {
				dst = make([]int64, len(c))
				bufs[i] = dst
			}
			copy(dst, c)
			out[i] = dst
			if b.Len > 0 && b.Len < len(dst) {
				out[i] = dst[:b.Len]
			}
		case []string:
			var dst []string
			if bufs == nil {
				dst = make([]string, len(c))
				c7keepMu.Lock()
				c7keep = append(c7keep, dst)
				c7keepMu.Unlock()
			} else if x, ok := bufs[i]; ok {
				dst = x.([]string)
			} else {
				dst = make([]string, len(c))
				bufs[i] = dst
			}
			copy(dst, c)
			out[i] = dst
			if b.Len > 0 && b.Len < len(dst) {
				out[i] = dst[:b.Len]
			}
		}
	}
	return out
}

var c7keepMu sync.Mutex

// c7OnBufferModified is called when a call left the caller's list buffer
// (including the part behind the bound prefix) different from what the caller
// wrote into it: the engine only READS what it is handed.
var c7OnBufferModified func(prog, call, detail string)

func c7checkBuffers(p *C7Prog, c C7Call, resolved []interface{}) {
	if c7OnBufferModified == nil {
		return
	}
	for i, v := range c.Vals {
		b, ok := v.(C7Buf)
		if !ok {
			continue
		}
		switch content := b.Content.(type) {
		case []int64:
			full := resolved[i].([]int64)
			full = full[:cap(full)]
			for k := range content {
				if k < len(full) && full[k] != content[k] {
					c7OnBufferModified(p.Name, c.Name, fmt.Sprintf("int list element %d (bound length %d) changed from %d to %d", k, len(resolved[i].([]int64)), content[k], full[k]))
					return
				}
			}
		case []string:
			full := resolved[i].([]string)
			full = full[:cap(full)]
			for k := range content {
				if k < len(full) && full[k] != content[k] {
					c7OnBufferModified(p.Name, c.Name, fmt.Sprintf("string list element %d (bound length %d) changed from %q to %q", k, len(resolved[i].([]string)), content[k], full[k]))
					return
				}
			}
		}
	}
}

type C7Prog struct {
	SeqOnly bool // the calls share a caller-side buffer: sequential histories only
	Light   bool // many scheduling points per call: explore pairs only, smaller preemption bound
	Name    string
	Src     string
	Vars    []term.VarDecl
	Opt     drive.Opt
	Calls   []C7Call
}

func c7vars(names ...string) []term.VarDecl {
	var v []term.VarDecl
	for _, n := range names {
		ty := term.TB
		switch n[0] {
		case 'n':
			ty = term.TI
		case 's':
			ty = term.TS
		case 'l':
			ty = term.TIL
		}
		v = append(v, term.VarDecl{Name: n, Ty: ty})
	}
	return v
}

func i64(vs ...int) []interface{} {
	out := make([]interface{}, len(vs))
	for i, v := range vs {
		out[i] = int64(v)
	}
	return out
}

// C07Corpus: programs chosen so that every evaluator branch is exercised
// (n-ary operator via the stack, binary operator via the two-slot buffer,
// fast operator, cond, short-circuit chains, stack classes 8/16/large,
// large-list builtins, failures), with and without event reporting.
func C07Corpus() []*C7Prog {
	allOn := drive.Opt{CF: true, RN: true, FE: true, RO: true}
	off := drive.Opt{}
	ev := func(o drive.Opt, m int) drive.Opt { o.Events = m; return o }
	evalc := func(name string, vals ...interface{}) C7Call { return C7Call{Kind: "eval", Name: name, Vals: vals} }
	tryc := func(name string, avail []bool, vals ...interface{}) C7Call {
		return C7Call{Kind: "tryeval", Name: name, Vals: vals, Avail: avail}
	}
	insp := []C7Call{{Kind: "dump", Name: "Dump"}, {Kind: "table", Name: "DumpTable(skip)"}, {Kind: "tableall", Name: "DumpTable(all)"}}

	// unordered 120-element literal
	var big []string
	for i := 0; i < 120; i++ {
		big = append(big, fmt.Sprint((i*37)%121+1000))
	}
	// deep stack: 18 operands, only a few of them variables
	deep := "(+ 1 n0 1 1 1 1 n1 1 1 1 1 1 1 1 1 1 (d n2 n3) 1)"
	mid := "(+ 1 n0 1 1 1 1 n1 1 (d n2 n3) 1)"

	reent := func(o drive.Opt, name string) *C7Prog {
		return &C7Prog{Light: true, Name: name, Src: "(+ (rec n0) (d n1 n2) (if (= n0 n1) 0 (- n2 (rec n1))))", Vars: c7vars("n0", "n1", "n2"), Opt: o,
			Calls: []C7Call{evalc("Eval#1", i64(1, 2, 3)...), evalc("Eval#2", i64(5, 5, 9)...), tryc("TryEval#all", nil, i64(4, 6, 8)...), insp[0]}}
	}
	reentSame := func(o drive.Opt, name string) *C7Prog {
		return &C7Prog{Light: true, Name: name, Src: "(+ 100 20 (recsame n0) (d n1 n2) (if (= n0 n1) 0 (- n2 (recsame n1))) 3)", Vars: c7vars("n0", "n1", "n2"), Opt: o,
			Calls: []C7Call{evalc("Eval#1", i64(1, 2, 3)...), evalc("Eval#2", i64(5, 5, 9)...), tryc("TryEval#all", nil, i64(4, 6, 8)...), insp[0]}}
	}
	ps := []*C7Prog{
		reent(off, "re-entrant-operator"),
		reent(ev(allOn, 1), "re-entrant-operator-events"),
		reentSame(off, "re-entrant-operator-same-ctx"),
		reentSame(allOn, "re-entrant-operator-same-ctx-optimised"),
		{Name: "binary-custom+nary", Src: "(d (+ n0 n1 n2) (d n3 n4))", Vars: c7vars("n0", "n1", "n2", "n3", "n4"), Opt: off,
			Calls: append([]C7Call{evalc("Eval#1", i64(1, 2, 3, 4, 5)...), evalc("Eval#2", i64(7, 7, 7, 8, 9)...),
				evalc("Eval#fetchfail", int64(1), ref.ErrFetch, int64(3), int64(4), int64(5)),
				tryc("TryEval#n3-unavailable", []bool{true, true, true, false, true}, i64(1, 2, 3, 4, 5)...)}, insp...)},
		{Name: "binary-custom+nary-fast", Src: "(d (+ n0 n1 n2) (d n3 n4))", Vars: c7vars("n0", "n1", "n2", "n3", "n4"), Opt: allOn,
			Calls: []C7Call{evalc("Eval#1", i64(1, 2, 3, 4, 5)...), evalc("Eval#2", i64(7, 7, 7, 8, 9)...),
				tryc("TryEval#all", nil, i64(2, 2, 2, 3, 3)...), tryc("TryEval#n0-unavailable", []bool{false, true, true, true, true}, i64(1, 2, 3, 4, 5)...)}},
		{Name: "short-circuit-chain", Src: "(and (or b0 (p b1)) (not (q b2 b3)) b4)", Vars: c7vars("b0", "b1", "b2", "b3", "b4"), Opt: off,
			Calls: append([]C7Call{evalc("Eval#tttft", true, true, true, false, true), evalc("Eval#fffff", false, false, false, false, false),
				evalc("Eval#ftfft", false, true, false, false, true),
				tryc("TryEval#b1-unavailable", []bool{true, false, true, true, true}, false, true, true, false, true)}, insp...)},
		{Name: "short-circuit-chain-events", Src: "(and (or b0 (p b1)) (not (q b2 b3)) b4)", Vars: c7vars("b0", "b1", "b2", "b3", "b4"), Opt: ev(off, 1),
			Calls: []C7Call{evalc("Eval#tttft", true, true, true, false, true), evalc("Eval#ftfft", false, true, false, false, true),
				tryc("TryEval#b1-unavailable", []bool{true, false, true, true, true}, false, true, true, false, true), insp[0], insp[1], insp[2]}},
		{Name: "cond", Src: "(if (p b0) (d n1 n2) (g n3))", Vars: c7vars("b0", "n1", "n2", "n3"), Opt: allOn,
			Calls: []C7Call{evalc("Eval#true", true, int64(1), int64(2), int64(3)), evalc("Eval#false", false, int64(1), int64(2), int64(3)),
				tryc("TryEval#b0-unavailable", []bool{false, true, true, true}, true, int64(1), int64(2), int64(3)), insp[0]}},
		{Name: "cond-debug", Src: "(if (p b0) (d n1 n2) (g n3))", Vars: c7vars("b0", "n1", "n2", "n3"), Opt: ev(allOn, 2),
			Calls: []C7Call{evalc("Eval#true", true, int64(1), int64(2), int64(3)), evalc("Eval#false", false, int64(4), int64(5), int64(6)), insp[1], insp[2], insp[0]}},
		{Name: "deep-stack(>16)", Src: deep, Vars: c7vars("n0", "n1", "n2", "n3"), Opt: off,
			Calls: []C7Call{evalc("Eval#1", i64(100, 200, 3, 4)...), evalc("Eval#2", i64(5000, 6000, 7, 8)...),
				tryc("TryEval#all", nil, i64(9, 9, 9, 9)...), tryc("TryEval#all-2", nil, i64(-40, -50, -6, -7)...)}},
		{Name: "mid-stack(9..16)", Src: mid, Vars: c7vars("n0", "n1", "n2", "n3"), Opt: allOn,
			Calls: []C7Call{evalc("Eval#1", i64(100, 200, 3, 4)...), tryc("TryEval#all", nil, i64(9, 9, 9, 9)...), tryc("TryEval#n1-unavailable", []bool{true, false, true, true}, i64(70, 80, 1, 2)...)}},
		{Name: "string-list-literals", Src: "(or (in s0 (\"a\" \"b\" \"c\")) (in s1 (\"a\" \"b\" \"c\" \"d\" \"e\")) (overlap ls2 (\"x\" \"y\" \"z\")))", Vars: []term.VarDecl{{Name: "s0", Ty: term.TS}, {Name: "s1", Ty: term.TS}, {Name: "ls2", Ty: term.TSL}}, Opt: off,
			Calls: []C7Call{evalc("Eval#miss", "q", "r", []string{"w"}), evalc("Eval#hit-last", "q", "e", []string{"w"}), evalc("Eval#miss2", "zz", "yy", []string{"v", "u"}), tryc("TryEval#s1-unavailable", []bool{true, false, true}, "q", "e", []string{"z"})}},
		{Name: "large-list-builtins", Src: "(and (overlap l0 (" + strings.Join(big, " ") + ")) (in n1 (3 1 2)))", Vars: c7vars("l0", "n1"), Opt: allOn,
			Calls: append([]C7Call{evalc("Eval#hit", []int64{5, 1001}, int64(2)), evalc("Eval#miss", []int64{5, 6}, int64(2)),
				tryc("TryEval#n1-unavailable", []bool{true, false}, []int64{1001}, int64(1))}, insp[0])},
		{Name: "failing-operator", Src: "(or (and b0 (boom)) (= (g n1) (/ n2 n3)))", Vars: c7vars("b0", "n1", "n2", "n3"), Opt: off,
			Calls: []C7Call{evalc("Eval#boom", true, int64(1), int64(2), int64(1)), evalc("Eval#div0", false, int64(1), int64(2), int64(0)),
				evalc("Eval#ok", false, int64(1), int64(4), int64(2)), tryc("TryEval#n3-unavailable", []bool{true, true, true, false}, false, int64(1), int64(4), int64(2))}},
		{Name: "strings-fast", Src: "(if (= s0 \"s\") (q b1 b2) (h b1 b2 b3))", Vars: c7vars("s0", "b1", "b2", "b3"), Opt: ev(allOn, 1),
			Calls: []C7Call{evalc("Eval#s", "s", true, false, true), evalc("Eval#t", "t", true, false, true), tryc("TryEval#b2-unavailable", []bool{true, true, false, true}, "t", true, true, true), insp[1]}},
	}
	// `in` over list literals on the large-list path (>= 100 elements, int and
	// string): the compiled list is shared by every evaluation of the program
	{
		var bi, bs []string
		for i := 0; i < 130; i++ {
			bi = append(bi, fmt.Sprint(1+2*i))
			bs = append(bs, fmt.Sprintf("\"w%d\"", 1+2*i))
		}
		for oi, o := range []drive.Opt{off, allOn} {
			ps = append(ps, &C7Prog{Name: fmt.Sprintf("in-large-literals-%d", oi), Src: "(if (in n0 (" + strings.Join(bi, " ") + ")) (in s1 (" + strings.Join(bs, " ") + ")) (not (in s1 (" + strings.Join(bs, " ") + "))))",
				Vars: []term.VarDecl{{Name: "n0", Ty: term.TI}, {Name: "s1", Ty: term.TS}}, Opt: o,
				Calls: []C7Call{evalc("Eval#first-member", int64(1), "w1"), evalc("Eval#last-member", int64(259), "w259"), evalc("Eval#non-member", int64(2), "w2"),
					evalc("Eval#mixed", int64(131), "zz"), tryc("TryEval#all", nil, int64(260), "w259"), tryc("TryEval#s1-unavailable", []bool{true, false}, int64(259), "w1"), insp[0]}})
		}
	}
	// configured constants whose Go types are not the engine's own (plain int,
	// int8, []int, a Duration): whatever the engine makes of them, it makes the
	// same of them in every call, and never by rewriting the compiled program
	for oi, o := range []drive.Opt{off, allOn} {
		ps = append(ps, &C7Prog{Name: fmt.Sprintf("raw-typed-constants-%d", oi), Src: "(if (= n0 KINT) (+ KINT n1 KI8) (if (in n1 KLIST) (+ KDUR n0) (+ n0 KI8)))", Vars: c7vars("n0", "n1"), Opt: o,
			Calls: []C7Call{evalc("Eval#eq", i64(12, 2)...), evalc("Eval#in", i64(5, 2)...), evalc("Eval#else", i64(5, 9)...),
				tryc("TryEval#eq", nil, i64(12, 2)...), tryc("TryEval#in", nil, i64(5, 2)...), tryc("TryEval#n1-unavailable", []bool{true, false}, i64(12, 2)...), insp[0], insp[2]}})
	}
	// a variable-free program whose operator keeps per-request state in the
	// evaluation context's own store; contexts without a fetcher and with
	// their own fresh store
	{
		st := func(kind, name, store string, level int64) C7Call {
			return C7Call{Kind: kind, Name: name, Store: store, Level: level}
		}
		for oi, o := range []drive.Opt{off, allOn} {
			ps = append(ps, &C7Prog{Name: fmt.Sprintf("context-store-operator-%d", oi), Src: "(if (>= (memo) 5) (+ (memo) 100) (- (memo) 100))", Opt: o,
				Calls: []C7Call{st("eval", "Eval#no-store-9", "none", 9), st("eval", "Eval#no-store-1", "none", 1), st("tryeval", "TryEval#no-store-7", "none", 7),
					st("tryeval", "TryEval#no-store-2", "none", 2), st("eval", "Eval#own-store-8", "own", 8), st("eval", "Eval#own-store-3", "own", 3), st("tryeval", "TryEval#own-store-4", "own", 4)}})
		}
	}
	// operators that convert text (dates): the same text reaching two
	// operators that accept different formats, in either order
	for oi, o := range []drive.Opt{off, allOn} {
		vars := []term.VarDecl{{Name: "b0", Ty: term.TB}, {Name: "s1", Ty: term.TS}}
		ps = append(ps, &C7Prog{Name: fmt.Sprintf("text-converting-operators-%d", oi), Src: "(if b0 (+ (td_time s1) (t_time s1)) (+ (td_date s1) (t_date s1) (version s1)))", Vars: vars, Opt: o,
			Calls: []C7Call{evalc("Eval#date-as-date", false, "2031-07-09"), evalc("Eval#date-as-time", true, "2031-07-09"),
				evalc("Eval#time-as-time", true, "2031-07-09 10:11:12"), evalc("Eval#time-as-date", false, "2031-07-09 10:11:12"),
				tryc("TryEval#date-as-time", nil, true, "2031-07-09"), evalc("Eval#version-as-date", false, "1.2.3"), evalc("Eval#version-as-time", true, "1.2.3")}})
	}
	// caller-side buffer reuse: the same backing array bound to a list variable
	// in successive calls with different contents (lengths around the engine's
	// large-list thresholds)
	for _, n := range []int{3, 64, 100, 130} {
		mkI := func(base int) []int64 {
			o := make([]int64, n)
			for i := range o {
				o[i] = int64(base + i*3)
			}
			return o
		}
		mkS := func(base int) []string {
			o := make([]string, n)
			for i := range o {
				o[i] = fmt.Sprint("k", base+i*3)
			}
			return o
		}
		bi := func(base int) C7Buf { return C7Buf{Content: mkI(base)} }
		bs := func(base int) C7Buf { return C7Buf{Content: mkS(base)} }
		for oi, o := range []drive.Opt{off, allOn} {
			ps = append(ps, &C7Prog{SeqOnly: true, Name: fmt.Sprintf("reused-list-buffer-%d-%d", n, oi),
				Src:  "(if (in n0 l1) (if (overlap l1 (1000 7 2000)) 1 2) (if (in s2 ls3) (if (overlap ls3 (\"k7\" \"zz\")) 3 4) 5))",
				Vars: []term.VarDecl{{Name: "n0", Ty: term.TI}, {Name: "l1", Ty: term.TIL}, {Name: "s2", Ty: term.TS}, {Name: "ls3", Ty: term.TSL}}, Opt: o,
				Calls: []C7Call{
					evalc("Eval#a", int64(1000), bi(1000), "k1", bs(1)),
					evalc("Eval#b", int64(1000), bi(1), "k1", bs(1000)),
					evalc("Eval#c", int64(7), bi(1), "k7", bs(1)),
					evalc("Eval#d", int64(5), bi(1000), "k1000", bs(1000)),
					tryc("TryEval#e", nil, int64(4), bi(1), "k1003", bs(1000)),
					// only a prefix of the buffer is bound (probes absent from the prefix,
					// present / absent behind it); the next call binds the whole buffer again
					evalc("Eval#prefix", int64(999), C7Buf{Content: mkI(1), Len: n - 1}, "zz", C7Buf{Content: mkS(1), Len: n - 1}),
					evalc("Eval#whole-after-prefix", int64(1+(n-1)*3), bi(1), fmt.Sprint("k", 1+(n-1)*3), bs(1)),
				}})
		}
	}
	return ps
}

// C07IsoMain: `check c07iso <program> <call>` — one call on a freshly compiled
// program in this (fresh) process; the outcome is printed on stdout.
func C07IsoMain(args []string) {
	var pi, ci int
	fmt.Sscan(args[0], &pi)
	fmt.Sscan(args[1], &ci)
	p := C07Corpus()[pi]
	e, err := C7Compile(p)
	if err != nil {
		fmt.Print("ERR:", err)
		return
	}
	fmt.Print("ISO:" + C7DoIso(e, p, p.Calls[ci]))
}

// C7Compile compiles a corpus program with per-call-logging operators.
func C7Compile(p *C7Prog) (*eval.Expr, error) {
	cfg := eval.NewConfig()
	for name, fn := range ref.Customs {
		cfg.OperatorMap[name] = c7op(name, fn)
	}
	cfg.OperatorMap["rec"] = c7rec
	cfg.OperatorMap["recsame"] = c7recSame
	cfg.OperatorMap["memo"] = c7memo
	cfg.ConstantMap["KINT"] = int(12)
	cfg.ConstantMap["KI8"] = int8(3)
	cfg.ConstantMap["KLIST"] = []int{1, 2, 3}
	cfg.ConstantMap["KDUR"] = 5 * time.Second
	for i, v := range p.Vars {
		cfg.VariableKeyMap[v.Name] = drive.KeyOf(i)
	}
	for _, x := range []struct {
		on  bool
		opt eval.CompileOption
	}{{p.Opt.CF, eval.ConstantFolding}, {p.Opt.RN, eval.ReduceNesting}, {p.Opt.FE, eval.FastEvaluation}, {p.Opt.RO, eval.Reordering}} {
		cfg.CompileOptions[x.opt] = x.on
	}
	switch p.Opt.Events {
	case 1:
		cfg.CompileOptions[eval.ReportEvent] = true
	case 2:
		cfg.CompileOptions[eval.Debug] = true
	}
	e, err := eval.Compile(cfg, p.Src)
	if err != nil {
		return nil, err
	}
	if p.Opt.Events != 0 {
		e.EventChan = make(chan eval.Event, 1<<16)
	}
	return e, nil
}

// C7Do performs one call and returns its canonical outcome text.
func C7Do(e *eval.Expr, p *C7Prog, c C7Call, point func(string)) string {
	return c7do(e, p, c, point, map[int]interface{}{})
}

// C7DoHist performs one call of a sequential history whose caller-side
// buffers are bufs.
func C7DoHist(e *eval.Expr, p *C7Prog, c C7Call, bufs map[int]interface{}) string {
	return c7do(e, p, c, nil, bufs)
}

// C7DoIso performs the call in isolation: nothing of the caller's side is
// shared with any other call either.
func C7DoIso(e *eval.Expr, p *C7Prog, c C7Call) string { return c7do(e, p, c, nil, nil) }

func c7do(e *eval.Expr, p *C7Prog, c C7Call, point func(string), bufs map[int]interface{}) (out string) {
	defer func() {
		if r := recover(); r != nil {
			out = fmt.Sprintf("PANIC(%v)", r)
		}
	}()
	switch c.Kind {
	case "dump":
		return eval.Dump(e)
	case "table":
		return eval.DumpTable(e, true)
	case "tableall":
		return eval.DumpTable(e, false)
	}
	if c.Store != "" {
		ctx := &eval.Ctx{Ctx: context.WithValue(context.Background(), c7levelKey{}, c.Level)}
		if c.Store == "own" {
			ctx.VariableFetcher = eval.NewMapVarFetcher(map[string]interface{}{})
		}
		if point != nil {
			point("before:" + c.Name)
		}
		var v eval.Value
		var err error
		if c.Kind == "eval" {
			v, err = e.Eval(ctx)
		} else {
			v, err = e.TryEval(ctx)
		}
		return fmt.Sprintf("%T(%v) err=%v", v, v, err)
	}
	f := &c7f{idx: map[string]int{}, vals: c7resolve(c.Vals, bufs), avail: c.Avail, point: point, expr: e}
	for i, v := range p.Vars {
		f.idx[v.Name] = i
	}
	var v eval.Value
	var err error
	if c.Kind == "eval" {
		v, err = e.Eval(&eval.Ctx{VariableFetcher: f})
	} else {
		v, err = e.TryEval(&eval.Ctx{VariableFetcher: f})
	}
	c7checkBuffers(p, c, f.vals)
	return fmt.Sprintf("%T(%v) err=%v trace=%v notes=%v", v, v, err, traceStr(f.trace), f.notes)
}

// c7text is the public view of the compiled program.
func c7text(e *eval.Expr) (t string) {
	defer func() {
		if r := recover(); r != nil {
			t = fmt.Sprintf("PANIC(%v)", r)
		}
	}()
	return eval.Dump(e) + "\n" + eval.DumpTable(e, false)
}

func c7drain(e *eval.Expr) int {
	n := 0
	if e.EventChan == nil {
		return 0
	}
	for {
		select {
		case <-e.EventChan:
			n++
		default:
			return n
		}
	}
}

func c07(r *rep.Run) {
	depth, bound2, bound3 := 4, 3, 2
	r.SetBudget(300e9)
	if r.Thorough() {
		depth, bound2, bound3 = 5, 5, 3
		r.SetBudget(1800e9)
	}
	r.Rule = "one shared compiled Expr per corpus program (13 programs + a variable-free program whose operator keeps per-request state in the context's own store (contexts without a fetcher / with their own store) + text-converting operators fed the same text in either order + 8 sequential-only programs whose list bindings reuse one caller-side buffer with changing contents, lengths 3/64/100/130; covering a re-entrant operator that evaluates its own expression, n-ary/binary/fast operators, cond, short-circuit chains, stack classes 8/16/large, large-list builtins, failures; events off/ReportEvent/Debug). (1) every sequential history of calls {Eval x bindings, TryEval x splits, Dump, DumpTable(skip/all)} up to the depth bound; (2) every interleaving of 2 threads x 1 call (all ordered pairs of evaluation calls), 2 threads x 2 calls and 3 threads x 1 call (all triples), each up to the stated preemption bound (iterative context bounding; executions always run to completion) under a cooperative scheduler whose points are the fetcher's Get/Cached, registered-operator entry, and call begin/end. Invariant after every call: the public view of the program (Dump + full DumpTable) is unchanged (changes of the reflective deep hash of the Expr are counted and reported, not judged: scratch state may live there); oracle per call: outcome (value, error, ordered fetch/operator trace, argument-buffer stability across a yield) equals the outcome of the same call in isolation on a freshly compiled program IN A FRESH PROCESS. (2b) 200 calls on one shared Expr all held inside their first fetcher callback until every one is in flight, then released: each returns its isolated outcome; after every call the caller's list buffers (incl. the part behind a bound prefix) are what the caller wrote. (3) auxiliary: the same call menus free-running under the Go race detector. non-trivial = schedules with at least one context switch inside a call"
	r.Assume = []string{"scheduling granularity is the environment callback (fetcher, registered operator), not the machine instruction; state shared between calls with no callback in between is caught by the deep-dump invariant and the race pass only",
		"weak-memory effects are outside a cooperative scheduler (race detector pass is the backstop)"}
	progs := C07Corpus()
	var mu sync.Mutex
	outcomes := map[string]bool{}
	c7OnBufferModified = func(prog, call, detail string) {
		r.Violate("caller-buffer-modified", prog+call, sprintf("%s: %s wrote into the list the caller bound: %s", prog, call, detail), map[string]interface{}{"program": prog, "call": call, "detail": detail})
	}
	// isolated outcomes
	// Each isolated outcome comes from a FRESH PROCESS (`check c07iso`): state
	// the library might keep at package level cannot be reset from inside, so
	// an in-process baseline taken after other calls would inherit it.
	iso := make([][]string, len(progs))
	type isoJob struct{ pi, ci int }
	var isoJobs []isoJob
	for pi, p := range progs {
		iso[pi] = make([]string, len(p.Calls))
		if _, err := C7Compile(p); err != nil {
			r.Violate("compile", p.Name, sprintf("corpus program %s does not compile: %v", p.Name, err), map[string]interface{}{"source": p.Src})
			r.Finish()
		}
		for ci := range p.Calls {
			isoJobs = append(isoJobs, isoJob{pi, ci})
		}
	}
	var isoFresh int64
	r.ParallelFor(len(isoJobs), func(w, j int) {
		pi, ci := isoJobs[j].pi, isoJobs[j].ci
		out, err := exec.Command(os.Args[0], "c07iso", fmt.Sprint(pi), fmt.Sprint(ci)).Output()
		if err == nil && strings.HasPrefix(string(out), "ISO:") {
			iso[pi][ci] = strings.TrimPrefix(string(out), "ISO:")
			atomic.AddInt64(&isoFresh, 1)
			return
		}
		e, _ := C7Compile(progs[pi]) // fall back to the in-process baseline
		iso[pi][ci] = C7DoIso(e, progs[pi], progs[pi].Calls[ci])
	})
	r.Cov["isolated_baselines_from_fresh_processes"] = isoFresh
	r.Cov["isolated_baselines"] = len(isoJobs)
	for pi := range iso {
		for _, s := range iso[pi] {
			outcomes[s] = true
		}
	}

	// (1) sequential histories
	type hjob struct{ pi, first int }
	var jobs []hjob
	for pi, p := range progs {
		for ci := range p.Calls {
			jobs = append(jobs, hjob{pi, ci})
		}
	}
	var histories, hcalls, internalChanges int64
	r.ParallelFor(len(jobs), func(w, j int) {
		p := progs[jobs[j].pi]
		n := len(p.Calls)
		hist := make([]int, depth)
		hist[0] = jobs[j].first
		var nh, nc int64
		var rec func(k int)
		run := func(k int) {
			e, _ := C7Compile(p)
			base := drive.DeepHash(e)
			text := c7text(e)
			bufs := map[int]interface{}{}
			for s := 0; s < k; s++ {
				c := p.Calls[hist[s]]
				got := C7DoHist(e, p, c, bufs)
				c7drain(e)
				nc++
				if got != iso[jobs[j].pi][hist[s]] {
					r.Violate("history-outcome", p.Name+c.Name, sprintf("%s: call %s returns a different outcome after an earlier call than in isolation", p.Name, c.Name),
						map[string]interface{}{"program": p.Src, "history": histNames(p, hist[:s+1]), "got": got, "isolated": iso[jobs[j].pi][hist[s]]})
				}
				if t := c7text(e); t != text {
					r.Violate("history-mutation", p.Name+c.Name, sprintf("%s: %s modified the compiled program (Dump/DumpTable differ afterwards)", p.Name, c.Name),
						map[string]interface{}{"program": p.Src, "history": histNames(p, hist[:s+1]), "before": text, "after": t})
					text = t
				}
				if h := drive.DeepHash(e); h != base {
					// internal scratch state may legitimately live in the Expr;
					// it is only reported, the behavioural oracles decide
					atomic.AddInt64(&internalChanges, 1)
					base = h
				}
			}
			nh++
		}
		rec = func(k int) {
			if k == depth {
				run(k)
				return
			}
			for c := 0; c < n; c++ {
				hist[k] = c
				rec(k + 1)
			}
		}
		r.Note(w, p.Name)
		rec(1)
		mu.Lock()
		histories += nh
		hcalls += nc
		mu.Unlock()
	})
	fmt.Printf("histories done at %.1fs\n", time.Since(r.Start).Seconds())
	r.Cov["sequential_histories"] = histories
	r.Cov["history_depth"] = depth
	r.Cov["calls_after_which_reflective_deep_hash_of_Expr_changed"] = internalChanges
	r.Sample(4, map[string]interface{}{"history": histNames(progs[0], []int{0, 3, 1}), "program": progs[0].Src})

	// (2) schedules
	type sjob struct {
		pi    int
		thr   [][]int // per thread: indices of calls
		bound int
		shape string
	}
	var sjobs []sjob
	for pi, p := range progs {
		var evs []int
		for ci, c := range p.Calls {
			if c.Kind == "eval" || c.Kind == "tryeval" {
				evs = append(evs, ci)
			}
		}
		if p.SeqOnly {
			continue
		}
		if p.Light {
			for _, a := range evs {
				for _, b := range evs {
					if a <= b {
						sjobs = append(sjobs, sjob{pi, [][]int{{a}, {b}}, 1, "2x1-light"})
					}
				}
			}
			continue
		}
		for _, a := range evs {
			for _, b := range evs {
				sjobs = append(sjobs, sjob{pi, [][]int{{a}, {b}}, bound2, "2x1"})
			}
		}
		// an inspecting thread next to an evaluating one
		for ci, c := range p.Calls {
			if c.Kind == "dump" || c.Kind == "tableall" {
				sjobs = append(sjobs, sjob{pi, [][]int{{evs[0]}, {ci}}, bound2, "eval|inspect"})
			}
		}
		if len(evs) >= 2 {
			sjobs = append(sjobs, sjob{pi, [][]int{{evs[0], evs[1]}, {evs[1], evs[0]}}, bound3, "2x2"})
		}
		evs3 := evs
		if !r.Thorough() && len(evs3) > 3 {
			evs3 = evs3[:3]
		}
		for _, a := range evs3 {
			for _, b := range evs3 {
				for _, c := range evs3 {
					if !r.Thorough() && !(a <= b && b <= c) {
						continue // quick: unordered triples (thread ids are symmetric)
					}
					sjobs = append(sjobs, sjob{pi, [][]int{{a}, {b}, {c}}, bound3, "3x1"})
				}
			}
		}
	}
	var schedules, points, switched int64
	exhaustive := true
	r.ParallelFor(len(sjobs), func(w, j int) {
		job := sjobs[j]
		p := progs[job.pi]
		r.Note(w, sprintf("%s %s %v", p.Name, job.shape, job.thr))
		st := exploreC7(r, w, p, job.thr, job.bound, iso[job.pi], &switched)
		mu.Lock()
		schedules += int64(st.Schedules)
		points += int64(st.Points)
		if !st.Exhaustive {
			exhaustive = false
		}
		mu.Unlock()
	})
	if !exhaustive {
		r.Capped("a schedule exploration hit its execution cap")
	}
	r.Cov["schedules_explored"] = schedules
	r.Cov["scheduling_points"] = points
	r.Cov["schedule_harnesses"] = len(sjobs)
	r.Cov["preemption_bound_3_threads_and_2x2"] = bound3
	r.Cov["preemption_bound_2_threads_x_1_call"] = bound2
	r.Cov["distinct_isolated_outcomes"] = len(outcomes)
	r.Add(histories+schedules, hcalls+points, hcalls+schedules, hcalls+schedules, switched)

	// (2b) many calls in flight at once
	c07MassOverlap(r, progs, iso)
	// (3) race pass
	fmt.Printf("schedules done at %.1fs\n", time.Since(r.Start).Seconds())
	r.External(func() { c07Race(r) })
	fmt.Printf("race pass done at %.1fs\n", time.Since(r.Start).Seconds())
	r.Finish()
}

// c07MassOverlap: "any number of goroutines at once" — N calls on one shared
// Expr are all held inside their first fetcher callback until every one of
// them is in flight (a barrier, no clock), then released: each returns its
// isolated outcome. A call that ends without reaching the barrier counts
// towards it, so the barrier always opens.
func c07MassOverlap(r *rep.Run, progs []*C7Prog, iso [][]string) {
	const N = 200
	var runs int64
	for pi, p := range progs {
		if p.SeqOnly || p.Light || len(p.Vars) == 0 {
			continue
		}
		var evs []int
		for ci, c := range p.Calls {
			if (c.Kind == "eval" || c.Kind == "tryeval") && c.Store == "" {
				evs = append(evs, ci)
			}
		}
		if len(evs) == 0 {
			continue
		}
		e, err := C7Compile(p)
		if err != nil {
			continue
		}
		var arrived int64
		open := make(chan struct{})
		var once sync.Once
		check := func() {
			if atomic.AddInt64(&arrived, 1) == N {
				once.Do(func() { close(open) })
			}
		}
		results := make([]string, N)
		var wg sync.WaitGroup
		stopDrain := make(chan struct{})
		if e.EventChan != nil {
			go func() { // a consumer, so that event-reporting programs never block on a full channel
				for {
					select {
					case <-e.EventChan:
					case <-stopDrain:
						return
					}
				}
			}()
		}
		for g := 0; g < N; g++ {
			wg.Add(1)
			go func(g int) {
				defer wg.Done()
				reached := false
				point := func(label string) {
					if !reached && (strings.HasPrefix(label, "get:") || strings.HasPrefix(label, "cached:")) {
						reached = true
						check()
						<-open
					}
				}
				results[g] = C7Do(e, p, p.Calls[evs[g%len(evs)]], point)
				if !reached {
					check()
				}
			}(g)
		}
		wg.Wait()
		close(stopDrain)
		runs += N
		bad := 0
		for g := 0; g < N; g++ {
			ci := evs[g%len(evs)]
			if results[g] != iso[pi][ci] {
				if bad == 0 {
					r.Violate("mass-overlap", p.Name, sprintf("%s: with %d calls in flight at once, %s returns a different outcome than in isolation", p.Name, N, p.Calls[ci].Name),
						map[string]interface{}{"program": p.Src, "calls_in_flight": N, "call": p.Calls[ci].Name, "got": results[g], "isolated": iso[pi][ci]})
				}
				bad++
			}
		}
	}
	r.Cov["mass_overlap_calls"] = runs
	r.Cov["mass_overlap_calls_in_flight"] = N
	r.Add(0, runs, runs, runs, runs)
}

func histNames(p *C7Prog, h []int) []string {
	out := make([]string, len(h))
	for i, c := range h {
		out[i] = p.Calls[c].Name
	}
	return out
}

// exploreC7 explores all interleavings of the given threads on one shared
// Expr and checks the oracles on every execution.
func exploreC7(r *rep.Run, w int, p *C7Prog, thr [][]int, bound int, iso []string, switched *int64) sched.Stats {
	nsched := 0
	var e *eval.Expr
	var base string
	var results [][]string
	var mutated string
	var cur *sched.Sched
	run := func(prefix []int) *sched.Sched {
		e, _ = C7Compile(p)
		base = c7text(e)
		mutated = ""
		results = make([][]string, len(thr))
		bodies := make([]sched.Body, len(thr))
		holder := &cur
		for t := range thr {
			t := t
			results[t] = make([]string, len(thr[t]))
			bodies[t].Run = func() {
				s := *holder
				for k, ci := range thr[t] {
					c := p.Calls[ci]
					s.Point("call:" + c.Name)
					results[t][k] = C7Do(e, p, c, s.Point)
					s.Point("return:" + c.Name)
				}
			}
		}
		onPoint := func(thread int, label string) {
			if mutated == "" && strings.HasPrefix(label, "return:") && c7text(e) != base {
				mutated = label
			}
		}
		return sched.RunWith(bodies, prefix, onPoint, func(s *sched.Sched) { *holder = s })
	}
	limit := 400000
	return sched.Explore(bound, limit, run, func(s *sched.Sched) bool {
		c7drain(e)
		if nsched++; nsched%256 == 0 {
			r.Note(w, sprintf("%s %v schedule #%d", p.Name, thr, nsched))
		}
		sw := false
		last := -1
		for _, pt := range s.Points {
			if last >= 0 && pt.Chosen != last && pt.RunningEnabled {
				sw = true
			}
			last = pt.Chosen
		}
		if sw {
			atomic.AddInt64(switched, 1)
		}
		desc := func() map[string]interface{} {
			var labels []string
			for _, pt := range s.Points {
				labels = append(labels, sprintf("T%d@%s->T%d", pt.Thread, pt.Label, pt.Chosen))
			}
			names := make([][]string, len(thr))
			for t := range thr {
				names[t] = histNames(p, thr[t])
			}
			return map[string]interface{}{"program": p.Src, "name": p.Name, "threads": names, "schedule": s.Choices(), "points": labels}
		}
		if s.Diverged != "" {
			r.Violate("nondeterminism", p.Name, "replaying a schedule prefix diverged: "+s.Diverged, desc())
			return false
		}
		if s.Deadlock || s.Overrun {
			r.Violate("deadlock", p.Name, "threads deadlock or never finish under this schedule", desc())
			return false
		}
		if mutated != "" {
			r.Violate("schedule-mutation", p.Name, sprintf("%s: the compiled program was modified during concurrent calls (first seen at point %s)", p.Name, mutated), desc())
		} else if c7text(e) != base {
			r.Violate("schedule-mutation", p.Name, sprintf("%s: the compiled program was modified during concurrent calls (Dump/DumpTable differ afterwards)", p.Name), desc())
		}
		for t := range thr {
			for k, ci := range thr[t] {
				if results[t][k] != iso[ci] {
					m := desc()
					m["got"] = results[t][k]
					m["isolated"] = iso[ci]
					m["thread"] = t
					r.Violate("schedule-outcome", p.Name+p.Calls[ci].Name, sprintf("%s: %s on thread %d returns a different outcome under this interleaving than in isolation", p.Name, p.Calls[ci].Name, t), m)
				}
			}
		}
		for _, pn := range s.Panics() {
			if pn != nil {
				r.Violate("schedule-panic", p.Name, sprintf("%s: panic under interleaving: %v", p.Name, pn), desc())
			}
		}
		if r.NumSamples() < 10 && len(s.Points) > 6 && sw {
			m := desc()
			delete(m, "program")
			r.Sample(10, m)
		}
		return true
	})
}

// c07Race builds the free-running harness with the race detector and runs it.
func c07Race(r *rep.Run) {
	bin := filepath.Join(rep.Root, ".bin", sprintf("racepass.%d", os.Getpid()))
	defer os.Remove(bin)
	args := []string{"build", "-race"}
	if mf := os.Getenv("VERIF_MODFILE"); mf != "" {
		args = append(args, "-modfile="+mf)
	}
	build := exec.Command("go", append(args, "-o", bin, "./cmd/racepass")...)
	build.Dir = filepath.Join(rep.Root, "mc")
	build.Env = append(os.Environ(), "CGO_ENABLED=1", "GOFLAGS=-mod=mod", "GOPROXY=off", "GOSUMDB=off", "GOTOOLCHAIN=local")
	if out, err := build.CombinedOutput(); err != nil {
		r.Cov["race_pass"] = "not run: race-instrumented build failed: " + firstLines(string(out), 3)
		return
	}
	iters := "300"
	if r.Thorough() {
		iters = "3000"
	}
	limit := 15 * time.Minute
	if r.Thorough() {
		limit = 90 * time.Minute
	}
	cctx, cancel := context.WithTimeout(context.Background(), limit)
	defer cancel()
	cmd := exec.CommandContext(cctx, bin, "C07", iters)
	cmd.Env = append(os.Environ(), "GORACE=halt_on_error=0 exitcode=66")
	out, err := cmd.CombinedOutput()
	text := string(out)
	if cctx.Err() != nil {
		r.Violate("race-pass-timeout", "racepass", sprintf("the free-running concurrent harness did not finish within %v: concurrent calls block each other", limit), map[string]interface{}{"output": firstLines(text, 40)})
		return
	}
	if strings.Contains(text, "WARNING: DATA RACE") {
		r.Violate("data-race", firstRaceSite(text), "the Go race detector reports a data race between concurrent calls on one shared Expr", map[string]interface{}{"report": firstLines(text, 60)})
		r.Cov["race_pass"] = "DATA RACE reported"
		return
	}
	if err != nil {
		r.Violate("race-pass-failed", "racepass", "the free-running concurrent harness failed: "+firstLines(text, 10), map[string]interface{}{"output": firstLines(text, 60)})
		return
	}
	r.Cov["race_pass"] = strings.TrimSpace(lastLine(text))
}

func firstLines(s string, n int) string {
	l := strings.Split(s, "\n")
	if len(l) > n {
		l = l[:n]
	}
	return strings.Join(l, "\n")
}

func lastLine(s string) string {
	l := strings.Split(strings.TrimSpace(s), "\n")
	return l[len(l)-1]
}

func firstRaceSite(text string) string {
	for _, l := range strings.Split(text, "\n") {
		l = strings.TrimSpace(l)
		if strings.Contains(l, "/repo/") || strings.Contains(l, "onheap/eval") {
			return l
		}
	}
	return "race"
}
