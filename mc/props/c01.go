package props

import (
	"fmt"
	"sync/atomic"

	eval "github.com/onheap/eval"

	"verifmc/drive"
	"verifmc/ref"
	"verifmc/rep"
	"verifmc/term"
)

func init() { Registry["C01"] = c01 }

// compiled is one compilation of a program.
type compiled struct {
	o   drive.Opt
	p   *Prog
	e   *eval.Expr
	f   *drive.Fetcher
	cfg *eval.Config // the caller-side config the program was compiled with
}

func c01(r *rep.Run) {
	coreMax, richMax := 7, 6
	r.SetBudget(300e9)
	if r.Thorough() {
		coreMax, richMax = 8, 7
		r.SetBudget(1500e9)
	}
	r.Rule = "every program of the CORE (and2/3 or2/3 not if; true false var) and RICH (CORE + = / + int-if, ConstantMap constant, registered ops p q boom) alphabets up to the node bound, compiled with all optimisations off under {registered, undefined-mode, mixed} variables x {events off, ReportEvent(, Debug)} x 3 operator-alias spellings, evaluated under EVERY binding of its (pairwise distinct) variables to {true,false | 0,1} or a sentinel fetch failure; oracle = recursive reference evaluator R1 (value, error identity, ordered fetch/operator trace). Plus the operator sweep: every builtin name/alias x every operand tuple of arity 0..3 over a mixed-type alphabet, as literals and as variables, bare and inside and/or/if contexts. non-trivial = (program,binding) pairs in which R1 short-circuits, fails or takes an if-branch"
	r.Assume = []string{
		"small-scope: jump targets, stack slots and parent flags are computed per node from parent/last-child/if-branch relations, all of which occur in trees of <= 7 nodes",
		"the reference evaluator R1 (mc/ref) is the documented semantics",
		"fresh variable per leaf: a repeated variable is the diagonal of the explored binding space (the engine does not cache fetches)",
	}
	r.Cov["bounds"] = map[string]int{"core_max_nodes": coreMax, "rich_max_nodes": richMax}

	// hand-written, wide and one-node programs first (few; covered even if the
	// run is cut short by its budget), then the enumerated ones
	progs := append(loneLeafPrograms(), extraPrograms()...)
	progs = append(progs, widePrograms(6)...)
	core := Programs(Core(), []term.Ty{B}, coreMax)
	nCore := len(core)
	progs = append(progs, core...)
	progs = append(progs, Programs(Rich(), []term.Ty{B, I}, richMax)...)
	progs = withMerged(progs, 5)
	r.Cov["programs_core"] = nCore
	r.Cov["programs_rich"] = len(progs) - nCore

	hs := harnesses(r.Workers)
	var outcomes [3]int64 // value, sentinel error, other error
	evModes := 2
	if r.Thorough() {
		evModes = 3
	}
	done := r.ParallelFor(len(progs), func(w, i int) {
		p := progs[i]
		h := hs[w]
		r.Note(w, p.Src)
		var cs []compiled
		for alias := 0; alias < 3; alias++ {
			if alias > 0 && !r.Thorough() && p.Size > 6 {
				continue
			}
			pa := Aliased(p, alias)
			if alias > 0 && pa.Src == p.Src {
				continue
			}
			for undef := 0; undef < 3; undef++ {
				if len(p.Vars) == 0 && undef > 0 {
					continue
				}
				for ev := 0; ev < evModes; ev++ {
					o := drive.Opt{Undef: undef, Events: ev, Infix: p.Infix}
					cfg := h.NewConfig(pa.Vars, o)
					// the config has just been used for the same source under an
					// in-source directive that switches every optimisation on: that
					// directive belongs to that compilation only
					_, _ = h.Compile(cfg, ";;;; optimize: true\n"+pa.Src, eventCap(p.Size))
					e, err := h.Compile(cfg, pa.Src, eventCap(p.Size))
					if err != nil {
						r.Violate("compile", pa.Src, sprintf("well-formed program does not compile: %v", err), caseDesc(pa.Src, o, nil, nil, nil, nil))
						continue
					}
					cs = append(cs, compiled{o: o, p: pa, e: e, f: drive.NewFetcher(h, pa.Vars, o)})
				}
			}
		}
		vals := make([]interface{}, len(p.Vars))
		var nb, nt, tr, ex int64
		drive.ForBindings(Doms(p.Vars, true), vals, func() bool {
			nb++
			if nb%512 == 0 {
				r.Note(w, p.Src) // progress within one program (many bindings)
			}
			env := envFor(p.Vars, vals)
			rv, rerr := env.Eval(p.T)
			want := refOut(rv, rerr)
			if rerr != nil || len(env.Trace) < countEffects(p.T) {
				nt++
			}
			switch {
			case rerr == nil:
				atomic.AddInt64(&outcomes[0], 1)
			case drive.IsSentinel(rerr):
				atomic.AddInt64(&outcomes[1], 1)
			default:
				atomic.AddInt64(&outcomes[2], 1)
			}
			for k := range cs {
				c := &cs[k]
				copy(c.f.Vals, vals)
				h.Reset()
				got := h.Eval(c.e, c.f)
				ex++
				tr += int64(len(h.Trace)) + 1
				if !drive.SameOutcome(got, want) {
					r.Violate("value", c.p.Src+c.o.String(), sprintf("Eval=%s but documented semantics gives %s", got, want),
						caseDesc(c.p.Src, c.o, p.Vars, vals, nil, map[string]interface{}{"got": got.String(), "want": want.String()}))
				} else if !ref.TraceEqual(h.Trace, env.Trace) {
					r.Violate("trace", c.p.Src+c.o.String(), "fetch/operator trace differs from left-to-right short-circuit evaluation",
						caseDesc(c.p.Src, c.o, p.Vars, vals, nil, map[string]interface{}{"got": traceStr(h.Trace), "want": traceStr(env.Trace)}))
				}
				if len(h.Protocol) > 0 {
					r.Violate("fetcher-protocol", c.p.Src+c.o.String(), h.Protocol[0], caseDesc(c.p.Src, c.o, p.Vars, vals, nil, nil))
				}
				// EvalBool on boolean programs (events off only: one more run)
				if p.T.Ty == B && c.o.Events == 0 && c.o.Undef == 0 {
					h.Reset()
					b, err := evalBool(c.e, c.f)
					ex++
					gb := drive.Out{Val: b, Err: err}
					if err != nil {
						gb.Val = nil
					}
					if pe, ok := err.(*drive.PanicErr); ok {
						gb = drive.Out{Panic: pe.V}
					}
					if !drive.SameOutcome(gb, want) {
						r.Violate("evalbool", c.p.Src, sprintf("EvalBool=%s but documented semantics gives %s", gb, want),
							caseDesc(c.p.Src, c.o, p.Vars, vals, nil, nil))
					}
				}
			}
			return true
		})
		r.Add(nb, tr, ex, ex, nt)
		if i%997 == 0 {
			r.Sample(12, map[string]interface{}{"program": p.Src, "configs": len(cs), "bindings": nb})
		}
	})
	r.Cov["programs_completed"] = done
	r.Cov["distinct_reference_outcomes"] = map[string]int64{"value": outcomes[0], "sentinel_error": outcomes[1], "builtin_error": outcomes[2]}

	c01Sweep(r, hs)
	c01PackageEval(r, progs, hs)
	r.Finish()
}

func evalBool(e *eval.Expr, f eval.VariableFetcher) (b bool, err error) {
	defer func() {
		if p := recover(); p != nil {
			err = &drive.PanicErr{V: p}
		}
	}()
	return e.EvalBool(&eval.Ctx{VariableFetcher: f})
}

// countEffects is the number of observable effects (fetches + registered
// operator calls) a total evaluation of t would have.
func countEffects(t *term.Term) int {
	n := 0
	t.Walk(func(x *term.Term) {
		if x.K == term.KVar {
			n++
		}
		if x.K == term.KOp {
			if _, ok := ref.Customs[x.Name]; ok {
				n++
			}
		}
	})
	return n
}

// ---- operator sweep ----

var sweepNames = func() []string {
	var n []string
	for k := range ref.Alias {
		n = append(n, k)
	}
	n = append(n, "if")
	sortStrings(n)
	return n
}()

func sortStrings(s []string) {
	for i := 1; i < len(s); i++ {
		for j := i; j > 0 && s[j] < s[j-1]; j-- {
			s[j], s[j-1] = s[j-1], s[j]
		}
	}
}

// sweepOperands: a mixed-type operand alphabet (right and wrong types).
func sweepOperands() []*term.Term {
	return []*term.Term{
		term.Const(true), term.Const(false),
		term.Const(0), term.Const(1), term.Const(-1), term.Const(3),
		{K: term.KConst, Val: int64(10), Lit: "010", Ty: term.TI}, // a leading zero does not change the base
		term.Const("a"), term.Const("2021-03-04"), term.Const("1.2.3"),
		{K: term.KConst, Val: []int64{1, 3, 10, -10}, Lit: "(1 3 010 -010)", Ty: term.TIL}, term.Const([]string{"a"}), term.Const([]string{}),
	}
}

func tyOf(v interface{}) term.Ty {
	switch v.(type) {
	case bool:
		return term.TB
	case int64:
		return term.TI
	case string:
		return term.TS
	case []int64:
		return term.TIL
	case []string:
		return term.TSL
	}
	return term.TX
}

func c01Sweep(r *rep.Run, hs []*drive.Harness) {
	ops := sweepOperands()
	maxAr := 3
	type job struct {
		name string
		args []*term.Term
	}
	var jobs []job
	var rec func(name string, cur []*term.Term, ar int)
	rec = func(name string, cur []*term.Term, ar int) {
		if len(cur) == ar {
			jobs = append(jobs, job{name, append([]*term.Term(nil), cur...)})
			return
		}
		for _, o := range ops {
			rec(name, append(cur, o), ar)
		}
	}
	for _, n := range sweepNames {
		for ar := 0; ar <= maxAr; ar++ {
			if n == "if" && ar != 3 {
				continue // other arities are compile errors (C06's business)
			}
			if (term.IsAnd(n) || term.IsOr(n)) && ar < 2 {
				continue // outside the statement's domain; C18 owns operand-count errors of and/or
			}
			rec(n, nil, ar)
		}
	}
	var undefined int64
	r.ParallelFor(len(jobs), func(w, i int) {
		j := jobs[i]
		h := hs[w]
		// literal form and variable form
		for form := 0; form < 2; form++ {
			kids := make([]*term.Term, len(j.args))
			var vars []term.VarDecl
			var vals []interface{}
			for k, a := range j.args {
				if form == 1 {
					name := fmt.Sprintf("v%d", k)
					kids[k] = term.Var(name, tyOf(a.Val))
					vars = append(vars, term.VarDecl{Name: name, Ty: tyOf(a.Val)})
					vals = append(vals, a.Val)
				} else {
					kids[k] = a
				}
			}
			if form == 1 && len(j.args) == 0 {
				continue
			}
			var core *term.Term
			if j.name == "if" {
				core = term.If(kids[0], kids[1], kids[2])
			} else {
				core = term.Op(j.name, term.TX, kids...)
			}
			if term.IsAnd(j.name) || term.IsOr(j.name) {
				typed := true
				for _, a := range j.args {
					if _, isB := a.Val.(bool); !isB {
						typed = false
					}
				}
				if !typed {
					continue // C01's domain: operands of and/or are boolean-typed or failing
				}
			}
			env := envFor(vars, vals)
			cv, cerr := env.Eval(core)
			if cerr == ref.ErrUndefined {
				atomic.AddInt64(&undefined, 1)
				continue
			}
			ctxs := []*term.Term{core}
			if _, isB := cv.(bool); isB || cerr != nil {
				ctxs = append(ctxs,
					term.Op("and", B, core, term.Const(true)),
					term.Op("or", B, term.Const(false), core),
					term.Op("and", B, term.Const(true), core, term.Const(true)),
					term.If(core, term.Const(1), term.Const(2)),
					term.Op("not", B, core), term.Op("!", B, term.Op("not", B, core)), term.Op("not", B, term.Op("not", B, term.Op("!", B, core))))
			} else {
				ctxs = append(ctxs, term.If(core, term.Const(1), term.Const(2)),
					term.If(term.Const(false), term.Const(0), core),
					term.Op("not", B, core), term.Op("not", B, term.Op("!", B, core)), term.Op("=", B, core, term.Op("not", B, term.Op("not", B, core))))
			}
			for _, t := range ctxs {
				src := t.Src()
				r.Note(w, src)
				o := drive.Opt{}
				cfg := h.NewConfig(vars, o)
				e, err := h.Compile(cfg, src, 64)
				if err != nil {
					r.Violate("sweep-compile", src, sprintf("well-formed program does not compile: %v", err), caseDesc(src, o, nil, nil, nil, nil))
					continue
				}
				f := drive.NewFetcher(h, vars, o)
				copy(f.Vals, vals)
				h.Reset()
				got := h.Eval(e, f)
				env := envFor(vars, vals)
				wv, werr := env.Eval(t)
				want := refOut(wv, werr)
				r.Add(1, int64(len(h.Trace))+1, 1, 1, boolInt(werr != nil))
				if !drive.SameOutcome(got, want) {
					r.Violate("sweep-value", j.name+"|"+src, sprintf("%s: Eval=%s but the operator's documented meaning gives %s", src, got, want),
						caseDesc(src, o, vars, vals, nil, map[string]interface{}{"got": got.String(), "want": want.String()}))
				}
			}
		}
		if i%5003 == 0 {
			r.Sample(20, map[string]interface{}{"sweep": term.Op(j.name, term.TX, j.args...).Src()})
		}
	})
	r.Cov["sweep_operator_tuples"] = len(jobs)
	r.Cov["sweep_skipped_undefined_by_statement"] = undefined
}

func boolInt(b bool) int64 {
	if b {
		return 1
	}
	return 0
}

// c01PackageEval drives the package-level eval.Eval entry point (which
// builds its own config and library fetcher) on the small programs.
func c01PackageEval(r *rep.Run, progs []*Prog, hs []*drive.Harness) {
	var sel []*Prog
	for _, p := range progs {
		if p.Size <= 5 && !p.Infix { // the package-level Eval reads prefix notation
			sel = append(sel, p)
		}
	}
	r.ParallelFor(len(sel), func(w, i int) {
		p := sel[i]
		h := hs[w]
		r.Note(w, "eval.Eval "+p.Src)
		vals := make([]interface{}, len(p.Vars))
		drive.ForBindings(Doms(p.Vars, false), vals, func() bool {
			m := map[string]interface{}{}
			for k, v := range p.Vars {
				m[v.Name] = vals[k]
			}
			for k, op := range h.OpMap {
				m[k] = op
			}
			env := envFor(p.Vars, vals)
			wv, werr := env.Eval(p.T)
			h.Reset()
			got := pkgEval(p.Src, m, h.Consts)
			r.Add(0, 1, 1, 1, 0)
			if !drive.SameOutcome(got, refOut(wv, werr)) {
				r.Violate("package-eval", p.Src, sprintf("eval.Eval(%q)=%s but documented semantics gives %s", p.Src, got, refOut(wv, werr)),
					caseDesc(p.Src, drive.Opt{}, p.Vars, vals, nil, nil))
			}
			return true
		})
	})
}

func pkgEval(src string, m map[string]interface{}, consts map[string]interface{}) (out drive.Out) {
	defer func() {
		if r := recover(); r != nil {
			out = drive.Out{Panic: r}
		}
	}()
	v, err := eval.Eval(src, m, eval.Optimizations(false), eval.RegVarAndOp(m), func(c *eval.Config) {
		for k, v := range consts {
			c.ConstantMap[k] = v
		}
	})
	return drive.Out{Val: v, Err: err}
}
