package props

import (
	"math"
	"sync/atomic"

	eval "github.com/onheap/eval"

	"verifmc/drive"
	"verifmc/ref"
	"verifmc/rep"
	"verifmc/term"
)

func init() { Registry["C02"] = c02 }

// costMaps returns the COSTS family instantiated for a program.
func costMaps(p *Prog) []drive.Opt {
	v0, v1, vl := "b0", "b1", "b0"
	if len(p.Vars) > 0 {
		v0 = p.Vars[0].Name
		vl = p.Vars[len(p.Vars)-1].Name
	}
	if len(p.Vars) > 1 {
		v1 = p.Vars[1].Name
	}
	ms := []struct {
		n string
		m map[string]float64
	}{
		{"v0:1e3", map[string]float64{v0: 1e3}},
		{"vlast:-50", map[string]float64{vl: -50}},
		{"variable:-5", map[string]float64{"variable": -5}},
		{"operator:0", map[string]float64{"operator": 0}},
		{"and,or:NaN", map[string]float64{"and": math.NaN(), "or": math.NaN()}},
		{"v0:+Inf,v1:-Inf", map[string]float64{v0: math.Inf(1), v1: math.Inf(-1)}},
		{"v0,v1:1e308", map[string]float64{v0: 1e308, v1: 1e308}},
		{"not:1e9,=:-1e9,p:0,/:-7", map[string]float64{"not": 1e9, "=": -1e9, "p": 0, "/": -7, "boom": -1e6}},
	}
	out := make([]drive.Opt, len(ms))
	for i, m := range ms {
		out[i] = drive.Opt{Costs: m.m, CostsName: m.n}
	}
	return out
}

func c02(r *rep.Run) {
	coreMax, richMax := 7, 6
	r.SetBudget(300e9)
	if r.Thorough() {
		coreMax, richMax = 7, 7
		r.SetBudget(1500e9)
	}
	r.Rule = "every CORE/RICH program up to the node bound x 16 optimisation subsets x {events off, ReportEvent} + 8 cost maps (negative, zero, huge, +-Inf, NaN, per-name and per-class) on the Reordering subsets + in-source directive renderings of each subset (5 spellings; must give the identical Dump and DumpTable as the programmatic options, also when the config says the opposite) x every value binding of all variables; the config also registers a (wrong) operator under every builtin name and alias; oracles: (1) all configurations that return a value agree, (2) if total evaluation R3 succeeds every configuration returns its value, (3) with Reordering off every configuration returns R1's value whenever R1 succeeds. non-trivial = (program,binding) pairs in which some sub-expression fails or some configuration errs"
	r.Assume = []string{"small-scope hypothesis on tree size (optimizer rewrites are local: fold a node, splice a child list, flag a two-leaf operator, sort one child list)",
		"cost maps are drawn from a fixed family of 8 extreme maps, not all float64 maps"}
	r.Cov["bounds"] = map[string]int{"core_max_nodes": coreMax, "rich_max_nodes": richMax}
	progs, nCore := corpus(coreMax, richMax)
	r.Cov["programs_core"], r.Cov["programs_rich"] = nCore, len(progs)-nCore
	aliasMax := 5
	if r.Thorough() {
		aliasMax = 6
	}
	progs = withAliases(progs, aliasMax)
	progs = withMerged(progs, 5)
	progs = append(loneLeafPrograms(), progs...)
	// named constants whose Go value is NOT one of the engine's types (a plain
	// Go int): they are what the caller put there, in every subset alike
	// (judged by cross-configuration agreement only)
	{
		raw := func() *term.Term { return &term.Term{K: term.KConst, Val: int(5), Lit: "KRAW", Ty: I} }
		var kr []*Prog
		for _, eq := range []string{"=", "!=", "eq", "=="} {
			kr = append(kr,
				MkProg(term.Op(eq, B, raw(), term.Const(5))),
				MkProg(term.If(term.Op(eq, B, raw(), term.Const(5)), term.Var("n", I), term.Const(0))),
				MkProg(term.Op("and", B, term.Var("b", B), term.Op(eq, B, term.Const(5), raw()))),
				MkProg(term.Op("or", B, term.Op(eq, B, raw(), raw()), term.Var("b", B))))
		}
		progs = append(kr, progs...)
	}
	r.Cov["programs_incl_alias_spellings"] = len(progs)
	hs := harnesses(r.Workers)
	for _, h := range hs {
		consts := map[string]interface{}{"KRAW": int(5)}
		for k, v := range h.Consts {
			consts[k] = v
		}
		h.Consts = consts
	}
	base := optMatrix(0, 1)
	for _, o := range optMatrix(0) {
		o.Undef = 1 // every variable resolved by name (undefined-variable mode)
		base = append(base, o)
	}
	roSets := []int{8, 15}
	if r.Thorough() {
		roSets = []int{8, 10, 13, 15}
	}
	var disagree, direct int64
	done := r.ParallelFor(len(progs), func(w, i int) {
		p := progs[i]
		h := hs[w]
		r.Note(w, p.Src)
		opts := append([]drive.Opt(nil), base...)
		for _, cm := range costMaps(p) {
			for _, b := range roSets {
				o := drive.FromBits(b)
				o.Costs, o.CostsName = cm.Costs, cm.CostsName
				opts = append(opts, o)
			}
		}
		cs := compileAll(r, h, p, opts)

		// directives == programmatic options
		for b := 0; b < 16; b++ {
			styles := []int{1 + (i+b)%drive.NumDirectiveStyles}
			if p.Size <= 4 {
				styles = []int{1, 2, 3, 4, 5}
			}
			var want string
			for k := range cs {
				if cs[k].o.OptBits() == b && cs[k].o.Events == 0 && cs[k].o.Costs == nil && cs[k].o.Undef == 0 {
					want = eval.Dump(cs[k].e) + "\n" + eval.DumpTable(cs[k].e, false)
				}
			}
			for _, st := range styles {
				o := drive.FromBits(b)
				o.Directive = st
				o.Infix = p.Infix
				cfg := h.NewConfig(p.Vars, o)
				before := snapshotOptions(cfg)
				e, err := h.Compile(cfg, drive.Source(p.Src, o), 0)
				atomic.AddInt64(&direct, 1)
				if err != nil {
					r.Violate("directive-compile", o.String(), sprintf("directive form of %s does not compile: %v", o, err), caseDesc(drive.Source(p.Src, o), o, nil, nil, nil, nil))
					continue
				}
				got := eval.Dump(e) + "\n" + eval.DumpTable(e, false)
				if got != want {
					r.Violate("directive-differs", o.String(), sprintf("in-source directives for %s compile to a different program than the programmatic options", o),
						caseDesc(drive.Source(p.Src, o), o, nil, nil, nil, map[string]interface{}{"got": got, "want": want}))
				}
				if after := snapshotOptions(cfg); after != before {
					r.Violate("directive-leaks", o.String(), "Compile with directives modified the caller's CompileOptions", caseDesc(drive.Source(p.Src, o), o, nil, nil, nil, map[string]interface{}{"before": before, "after": after}))
				}
			}
		}

		vals := make([]interface{}, len(p.Vars))
		var nb, nt, tr, ex int64
		drive.ForBindings(Doms(p.Vars, false), vals, func() bool {
			nb++
			if nb%512 == 0 {
				r.Note(w, p.Src) // progress within one program (many bindings)
			}
			env := envFor(p.Vars, vals)
			r1v, r1e := env.Eval(p.T)
			env3 := envFor(p.Vars, vals)
			r3v, r3e := env3.EvalTotal(p.T)
			var firstVal interface{}
			var firstCfg string
			have := false
			anyErr := r1e != nil || r3e != nil
			for k := range cs {
				c := &cs[k]
				copy(c.f.Vals, vals)
				h.Reset()
				got := h.Eval(c.e, c.f)
				ex++
				tr += int64(len(h.Trace)) + 1
				d := func(extra map[string]interface{}) map[string]interface{} {
					return caseDesc(p.Src, c.o, p.Vars, vals, nil, extra)
				}
				if got.Panic != nil {
					r.Violate("panic", p.Src+c.o.String(), sprintf("Eval panics under %s: %v", c.o, got.Panic), d(nil))
					continue
				}
				if got.Err != nil {
					anyErr = true
				}
				if r3e == nil && !drive.SameOutcome(got, refOut(r3v, nil)) {
					r.Violate("total-eval", p.Src+c.o.String(), sprintf("evaluating every reachable operand succeeds with %v, but %s gives %s", r3v, c.o, got), d(map[string]interface{}{"want": refOut(r3v, nil).String(), "got": got.String()}))
					continue
				}
				if !c.o.RO && r1e == nil && !drive.SameOutcome(got, refOut(r1v, nil)) {
					r.Violate("guard", p.Src+c.o.String(), sprintf("left-to-right short-circuit evaluation succeeds with %v, but %s (Reordering off) gives %s", r1v, c.o, got), d(map[string]interface{}{"want": refOut(r1v, nil).String(), "got": got.String()}))
					continue
				}
				if got.Err == nil {
					if !have {
						have, firstVal, firstCfg = true, got.Val, c.o.String()
					} else if !ref.ValEqual(firstVal, got.Val) {
						atomic.AddInt64(&disagree, 1)
						r.Violate("disagree", p.Src+c.o.String(), sprintf("%s returns %v but %s returns %v for the same binding", firstCfg, firstVal, c.o, got.Val), d(map[string]interface{}{"other_config": firstCfg}))
					}
				}
			}
			if anyErr {
				nt++
			}
			return true
		})
		r.Add(nb, tr, ex, ex, nt)
		if i%1499 == 0 {
			r.Sample(12, map[string]interface{}{"program": p.Src, "configs": len(cs), "bindings": nb})
		}
	})
	r.Cov["programs_completed"] = done
	r.Cov["directive_compilations_compared"] = direct
	r.Finish()
}

func snapshotOptions(cfg *eval.Config) string {
	keys := []eval.CompileOption{eval.Optimize, eval.Reordering, eval.FastEvaluation, eval.ReduceNesting, eval.ConstantFolding,
		eval.Debug, eval.ReportEvent, eval.InfixNotation, eval.AllowUndefinedVariable}
	s := sprintf("n=%d", len(cfg.CompileOptions))
	for _, k := range keys {
		if v, ok := cfg.CompileOptions[k]; ok {
			s += sprintf(" %s=%v", k, v)
		}
	}
	return s
}
