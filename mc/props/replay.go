package props

import (
	"encoding/json"
	"fmt"
)

// GenericReplay prints the recorded case; property-specific replayers
// re-execute it against the current tree.
func GenericReplay(kind string, c map[string]interface{}) error {
	b, _ := json.MarshalIndent(c, "", " ")
	fmt.Printf("recorded case:\n%s\n", b)
	return fmt.Errorf("no executable replayer for this case kind (%s); re-run the check to re-evaluate it", kind)
}
