package props

import (
	"encoding/json"
	"fmt"
	"strconv"
	"strings"

	eval "github.com/onheap/eval"

	"verifmc/drive"
	"verifmc/ref"
	"verifmc/sched"
	"verifmc/sx"
	"verifmc/term"
)

// GenericReplay re-executes a recorded case against the current tree without
// the explorer. It understands three shapes of case:
//   - program cases (source + config + binding): compile, Eval and TryEval
//     under the recorded configuration, and print the reference evaluations
//     (R1 lazy, R3 total, R2 Kleene) next to them;
//   - text cases (C06: source + notation): Compile / Dump / Eval under a
//     panic fence;
//   - schedule cases (C07: corpus program + threads + schedule): re-run that
//     one interleaving.
//
// It returns an error (=> VIOLATION line, exit 1) when the replayed case still
// shows the recorded discrepancy.
func GenericReplay(kind string, c map[string]interface{}) error {
	b, _ := json.MarshalIndent(c, "", " ")
	fmt.Printf("recorded case:\n%s\n\n", b)
	switch {
	case c["schedule"] != nil && c["name"] != nil:
		return replaySchedule(c)
	case c["history"] != nil && c["program"] != nil:
		return replayC7History(c)
	case c["history"] != nil && (kind == "history-result" || kind == "config-modified"):
		return replayC8History(c)
	case c["binding"] != nil && c["source"] != nil:
		return replayProgram(kind, c)
	case c["source"] != nil && c["infix"] != nil:
		return replayText(c)
	}
	return fmt.Errorf("this case kind (%s) has no executable replayer; re-run the check to re-evaluate it", kind)
}

func num(v interface{}) int {
	if f, ok := v.(float64); ok {
		return int(f)
	}
	return 0
}

func parseVal(s string) (val interface{}, available bool) {
	available = true
	if strings.HasPrefix(s, "UNAVAILABLE(") {
		available = false
		s = strings.TrimSuffix(strings.TrimPrefix(s, "UNAVAILABLE("), ")")
	}
	switch s {
	case "true":
		return true, available
	case "false":
		return false, available
	case ref.ErrFetch.Error():
		return ref.ErrFetch, available
	}
	if i, err := strconv.ParseInt(s, 10, 64); err == nil {
		return i, available
	}
	if strings.HasPrefix(s, "[") {
		var l []int64
		for _, f := range strings.Fields(strings.Trim(s, "[]")) {
			i, err := strconv.ParseInt(f, 10, 64)
			if err != nil {
				return s, available
			}
			l = append(l, i)
		}
		if l == nil {
			l = []int64{}
		}
		return l, available
	}
	return s, available
}

func replayProgram(kind string, c map[string]interface{}) error {
	src := c["source"].(string)
	o := drive.FromBits(num(c["optbits"]))
	o.Events, o.Undef, o.Directive = num(c["events"]), num(c["undef"]), num(c["directive"])
	if b, _ := c["infix"].(bool); b {
		o.Infix = true // a one-node program written in infix notation
	}
	readable := stripDirectives(src)
	if o.Infix {
		readable = strings.Trim(readable, "()")
	}
	t, err := sx.Parse(readable)
	if err != nil {
		return fmt.Errorf("cannot read the recorded source back: %v", err)
	}
	bind := c["binding"].(map[string]interface{})
	vars := t.Vars()
	// variables in recorded order of appearance; types are irrelevant for replay
	h := drive.NewHarness()
	for _, n := range []string{"last", "vsum", "t0", "i0", "cat"} {
		h.Register(n, ref.Customs[n])
	}
	cfg := h.NewConfig(vars, o)
	e, cerr := h.Compile(cfg, drive.Source(stripDirectives(src), o), 4096)
	if cerr != nil {
		fmt.Printf("Compile: %v\n", cerr)
		return fmt.Errorf("the program does not compile: %v", cerr)
	}
	fmt.Printf("Dump:\n%s\n\n%s\n", eval.Dump(e), eval.DumpTable(e, false))
	f := drive.NewFetcher(h, vars, o)
	env := &ref.Env{Vals: map[string]interface{}{}, Custom: ref.Customs}
	kenv := &ref.Env{Vals: map[string]interface{}{}, Custom: ref.Customs}
	anyUnavailable := false
	f.Avail = make([]bool, len(vars))
	for i, v := range vars {
		s, _ := bind[v.Name].(string)
		val, av := parseVal(s)
		f.Vals[i] = val
		f.Avail[i] = av
		env.Vals[v.Name] = val
		kenv.Vals[v.Name] = val
		if !av {
			anyUnavailable = true
			kenv.Vals[v.Name] = ref.Unknown
		}
	}
	avail := f.Avail
	f.Avail = nil
	h.Reset()
	ev := h.Eval(e, f)
	evTrace := append([]ref.Ev(nil), h.Trace...)
	f.Avail = avail
	h.Reset()
	tv := h.TryEval(e, f)
	r1v, r1e := env.Eval(t)
	r1Trace := env.Trace
	env3 := &ref.Env{Vals: env.Vals, Custom: ref.Customs}
	r3v, r3e := env3.EvalTotal(t)
	kv, ke := kenv.Kleene(t)
	fmt.Printf("engine  Eval    (all variables fetched): %s\n        trace %v\n", ev, traceStr(evTrace))
	fmt.Printf("engine  TryEval (recorded availability): %s\n", tv)
	fmt.Printf("model   R1 lazy left-to-right          : %s\n        trace %v\n", refOut(r1v, r1e), traceStr(r1Trace))
	fmt.Printf("model   R3 total evaluation            : %s\n", refOut(r3v, r3e))
	fmt.Printf("model   R2 Kleene (recorded availability): %v / %v\n\n", kv, ke)
	if ev.Panic != nil || tv.Panic != nil {
		return fmt.Errorf("the engine panics on the recorded case")
	}
	// does the recorded discrepancy still show?
	if r3e == nil && !drive.SameOutcome(ev, refOut(r3v, nil)) {
		return fmt.Errorf("Eval returns %s although evaluating every operand succeeds with %v", ev, r3v)
	}
	if !o.RO && r1e == nil && !drive.SameOutcome(ev, refOut(r1v, nil)) {
		return fmt.Errorf("Eval returns %s, left-to-right short-circuit evaluation gives %v", ev, r1v)
	}
	if o.OptBits() == 0 && (!drive.SameOutcome(ev, refOut(r1v, r1e)) || !ref.TraceEqual(evTrace, r1Trace)) {
		return fmt.Errorf("unoptimised Eval (%s) differs from the documented semantics (%s) in value, error identity or trace", ev, refOut(r1v, r1e))
	}
	if ke == nil && kv != ref.Unknown && (tv.Err != nil || !ref.ValEqual(tv.Val, kv)) {
		return fmt.Errorf("three-valued evaluation decides %v but TryEval returns %s", kv, tv)
	}
	if !anyUnavailable && ((tv.Err != nil) != (ev.Err != nil) || (tv.Err == nil && !ref.ValEqual(tv.Val, ev.Val))) {
		return fmt.Errorf("with every variable available TryEval=%s but Eval=%s", tv, ev)
	}
	if tv.Err == nil && !isDNE(tv.Val) && anyUnavailable && ev.Err == nil && !ref.ValEqual(tv.Val, ev.Val) {
		return fmt.Errorf("TryEval answers %v but Eval returns %v once the variables are fetched", tv.Val, ev.Val)
	}
	return nil
}

func stripDirectives(src string) string {
	lines := strings.Split(src, "\n")
	i := 0
	for i < len(lines) && strings.HasPrefix(strings.TrimSpace(lines[i]), ";") {
		i++
	}
	return strings.Join(lines[i:], "\n")
}

func replayText(c map[string]interface{}) error {
	src := c["source"].(string)
	infix, _ := c["infix"].(bool)
	undef, _ := c["allow_undefined"].(bool)
	w := newC06Worker()
	for ci, cf := range c06cfgs {
		if cf.infix != infix || cf.undef != undef {
			continue
		}
		for ev := 0; ev < 3; ev++ {
			e, err := w.h.Compile(w.cfgs[ci][ev], src, 4*len(src)+64)
			fmt.Printf("Compile(%q) infix=%v undefined=%v events=%d: program=%v err=%v\n", src, infix, undef, ev, e != nil, err)
			if _, isPanic := err.(*drive.PanicErr); isPanic {
				return fmt.Errorf("Compile panics: %v", err)
			}
			if err != nil {
				continue
			}
			if p, site := drive.Fence(func() { fmt.Println(eval.Dump(e)); eval.DumpTable(e, false) }); p != nil {
				return fmt.Errorf("Dump/DumpTable panics at %s: %v", site, p)
			}
			for _, xv := range c06Values {
				for mode := 0; mode < 3; mode++ {
					f := &c06fetch{x: xv, u: xv, avail: mode != 2}
					var out drive.Out
					if mode == 0 {
						out = w.h.Eval(e, f)
					} else {
						out = w.h.TryEval(e, f)
					}
					if out.Panic != nil {
						return fmt.Errorf("evaluation with x=%v panics at %s: %v", xv, out.Site, out.Panic)
					}
				}
			}
		}
	}
	return nil
}

func replaySchedule(c map[string]interface{}) error {
	name := c["name"].(string)
	var p *C7Prog
	for _, q := range C07Corpus() {
		if q.Name == name {
			p = q
		}
	}
	if p == nil {
		return fmt.Errorf("unknown corpus program %q", name)
	}
	var thr [][]int
	for _, t := range c["threads"].([]interface{}) {
		var calls []int
		for _, n := range t.([]interface{}) {
			for ci, cc := range p.Calls {
				if cc.Name == n.(string) {
					calls = append(calls, ci)
				}
			}
		}
		thr = append(thr, calls)
	}
	var prefix []int
	for _, x := range c["schedule"].([]interface{}) {
		prefix = append(prefix, num(x))
	}
	iso := make([]string, len(p.Calls))
	for ci, cc := range p.Calls {
		e, err := C7Compile(p)
		if err != nil {
			return err
		}
		iso[ci] = C7DoIso(e, p, cc)
	}
	for rep := 0; rep < 2; rep++ { // twice: the same schedule must give the same observations
		e, _ := C7Compile(p)
		base := c7text(e)
		results := make([][]string, len(thr))
		var cur *sched.Sched
		bodies := make([]sched.Body, len(thr))
		for t := range thr {
			t := t
			results[t] = make([]string, len(thr[t]))
			bodies[t].Run = func() {
				for k, ci := range thr[t] {
					cur.Point("call:" + p.Calls[ci].Name)
					results[t][k] = C7Do(e, p, p.Calls[ci], cur.Point)
					cur.Point("return:" + p.Calls[ci].Name)
				}
			}
		}
		s := sched.RunWith(bodies, prefix, nil, func(x *sched.Sched) { cur = x })
		if s.Diverged != "" {
			return fmt.Errorf("schedule replay diverged: %s", s.Diverged)
		}
		for _, pt := range s.Points {
			fmt.Printf("  T%d @ %-28s -> T%d\n", pt.Thread, pt.Label, pt.Chosen)
		}
		if c7text(e) != base {
			return fmt.Errorf("the compiled program was modified under this interleaving")
		}
		for t := range thr {
			for k, ci := range thr[t] {
				fmt.Printf("thread %d %s: %s\n", t, p.Calls[ci].Name, results[t][k])
				if results[t][k] != iso[ci] {
					return fmt.Errorf("thread %d: %s returns %s under this interleaving but %s in isolation", t, p.Calls[ci].Name, results[t][k], iso[ci])
				}
			}
		}
	}
	return nil
}

var _ = term.TB

// replayC7History re-runs one sequential call history on one shared compiled
// program (C07) and compares every call with the same call in isolation.
func replayC7History(c map[string]interface{}) error {
	src := c["program"].(string)
	var names []string
	for _, n := range c["history"].([]interface{}) {
		names = append(names, n.(string))
	}
	for _, p := range C07Corpus() {
		if p.Src != src {
			continue
		}
		idx := make([]int, 0, len(names))
		for _, n := range names {
			for ci, cc := range p.Calls {
				if cc.Name == n {
					idx = append(idx, ci)
					break
				}
			}
		}
		if len(idx) != len(names) {
			continue // same source under another option set / call menu
		}
		e, err := C7Compile(p)
		if err != nil {
			return err
		}
		text := c7text(e)
		bufs := map[int]interface{}{}
		bad := false
		for step, ci := range idx {
			iso, _ := C7Compile(p)
			want := C7DoIso(iso, p, p.Calls[ci])
			got := C7DoHist(e, p, p.Calls[ci], bufs)
			c7drain(e)
			fmt.Printf("[%s] step %d %s:\n   in this history: %s\n   in isolation:    %s\n", p.Name, step+1, p.Calls[ci].Name, trunc(got, 400), trunc(want, 400))
			if got != want {
				bad = true
			}
			if t := c7text(e); t != text {
				fmt.Printf("   the compiled program changed (Dump/DumpTable differ)\n")
				bad, text = true, t
			}
		}
		if bad {
			return fmt.Errorf("%s: a call of this history differs from the same call in isolation, or the program was modified", p.Name)
		}
	}
	return nil
}

// replayC8History re-runs one history of Compile calls on fresh caller
// configs (C08) and compares each result with the same call made first.
func replayC8History(c map[string]interface{}) error {
	type step struct {
		ci  int
		src string
	}
	var steps []step
	for _, h := range c["history"].([]interface{}) {
		s := h.(string) // Compile(configX, "source")
		if !strings.HasPrefix(s, "Compile(config") || len(s) < 18 {
			return fmt.Errorf("cannot read history step %q", s)
		}
		ci := int(s[len("Compile(config")] - 'A')
		q := s[len("Compile(configX, ") : len(s)-1]
		src, err := strconv.Unquote(q)
		if err != nil {
			return fmt.Errorf("cannot read history step %q: %v", s, err)
		}
		steps = append(steps, step{ci, src})
	}
	cfgs := c8Configs(&c8env{})
	snaps := make([]string, len(cfgs))
	for i, cfg := range cfgs {
		snaps[i] = c8Snapshot(cfg)
	}
	bad := false
	for k, st := range steps {
		fresh := c8Configs(&c8env{})
		fe, ferr := c8Compile(fresh[st.ci], st.src)
		want := c8Result(fe, ferr)
		e, err := c8Compile(cfgs[st.ci], st.src)
		got := c8Result(e, err)
		fmt.Printf("step %d Compile(config%c, %q):\n   in this history: %s\n   on fresh configs: %s\n", k+1, 'A'+st.ci, st.src, trunc(got, 300), trunc(want, 300))
		if got != want {
			bad = true
		}
		for i, cfg := range cfgs {
			if now := c8Snapshot(cfg); now != snaps[i] {
				fmt.Printf("   caller config %c was modified\n", 'A'+i)
				bad, snaps[i] = true, now
			}
		}
	}
	if bad {
		return fmt.Errorf("a compilation of this history differs from the same compilation on fresh configs (in this process), or a caller config was modified")
	}
	return nil
}
