package props

import (
	"fmt"
	"os"
	"sort"
	"strings"
	"sync/atomic"
	"time"

	eval "github.com/onheap/eval"

	"verifmc/drive"
	"verifmc/ref"
	"verifmc/rep"
	"verifmc/sx"
	"verifmc/term"
)

func init() { Registry["C06"] = c06 }

// tokens of the C06(a) space
var c06Tokens = []string{"(", ")", "[", "]", ",", "1", "-1", `"s"`, "x", "u", "and", "+", "-", "!", "!=", "!x", "if", "f", "let",
	";c\n", ";;;;optimize:false\n", ";;;;bogus\n"}

// characters of the C06(b) space
var c06Chars = []rune{'(', ')', '[', ']', ',', ';', '"', '!', '=', '-', '.', 'a', '1', ' ', '\n', 'é', ' '}

type c06cfg struct {
	infix, undef bool
}

var c06cfgs = []c06cfg{{false, false}, {false, true}, {true, false}, {true, true}}

// c06Values: values variables take when a random text happens to compile
// (scalars of every supported type, lists, nil).
var c06Values = []interface{}{true, int64(1), "s", []int64{1}, []string{"a"}, nil, false, int64(0), int64(1 << 32), int64(-1 << 63), int64(-1),
	map[string]struct{}{"a": {}}, map[string]struct{}{"b": {}}, map[int64]struct{}{1: {}}} // pre-built sets (what `in` accepts)

type c06worker struct {
	h    *drive.Harness
	cfgs [4][3]*eval.Config // [cfg][events]
	seen map[string]bool    // compiled programs already evaluated by this worker (by config + Dump + DumpTable)
}

func newC06Worker() *c06worker {
	w := &c06worker{h: drive.NewHarness(), seen: map[string]bool{}}
	w.h.Register("f", func(a []interface{}) (interface{}, error) {
		if len(a) == 0 {
			return int64(7), nil
		}
		return a[0], nil
	})
	for i, c := range c06cfgs {
		for ev := 0; ev < 3; ev++ {
			o := drive.Opt{CF: true, RN: true, FE: true, RO: true, Events: ev, Infix: c.infix}
			if c.undef {
				o.Undef = 1
			}
			cfg := w.h.NewConfig(nil, o)
			cfg.VariableKeyMap["x"] = 1
			w.cfgs[i][ev] = cfg
		}
	}
	return w
}

type c06fetch struct {
	x, u  interface{}
	avail bool
}

func (f *c06fetch) Get(k eval.VariableKey, s string) (eval.Value, error) {
	if s == "x" {
		return f.x, nil
	}
	return f.u, nil
}
func (f *c06fetch) Set(eval.VariableKey, string, eval.Value) error { return nil }
func (f *c06fetch) Cached(eval.VariableKey, string) bool           { return f.avail }

type c06stats struct {
	inputs, compiled, evals, transitions, distinct int64
}

// c06One runs the totality oracle on one source text under one config.
func c06One(r *rep.Run, w *c06worker, src string, ci int, st *c06stats, deep bool) {
	c := c06cfgs[ci]
	h := w.h
	atomic.AddInt64(&st.inputs, 1)
	e, err := h.Compile(w.cfgs[ci][0], src, 0)
	desc := func(extra string) map[string]interface{} {
		return map[string]interface{}{"source": src, "infix": c.infix, "allow_undefined": c.undef, "stage": extra}
	}
	if pe, ok := err.(*drive.PanicErr); ok {
		r.Violate("compile-panic", pe.Site, sprintf("Compile(%q) infix=%v undef=%v panics: %v (at %s)", src, c.infix, c.undef, pe.V, pe.Site), desc("compile"))
		return
	}
	if err != nil {
		return
	}
	atomic.AddInt64(&st.compiled, 1)
	if len(src) > 2000 {
		r.Tick() // long inputs: every stage is progress
	}
	// Dump / DumpTable
	var key string
	if p, site := drive.Fence(func() { key = eval.Dump(e) + eval.DumpTable(e, true); eval.DumpTable(e, false) }); p != nil {
		r.Violate("dump-panic", site, sprintf("Dump/DumpTable of Compile(%q) panics: %v (at %s)", src, p, site), desc("dump"))
	} else if len(key) < 4096 {
		// identical programs (same config, same decompiled text and table)
		// behave identically: evaluate each distinct one once per worker
		key = string(rune('0'+ci)) + key
		if w.seen[key] {
			return
		}
		w.seen[key] = true
		atomic.AddInt64(&st.distinct, 1)
	}
	evs := 1
	if deep {
		evs = 3
	}
	for ev := 0; ev < evs; ev++ {
		ex := e
		if ev > 0 {
			var err error
			ex, err = h.Compile(w.cfgs[ci][ev], src, 4*len(src)+64)
			if pe, ok := err.(*drive.PanicErr); ok {
				r.Violate("compile-panic", pe.Site, sprintf("Compile(%q) with events=%d panics: %v (at %s)", src, ev, pe.V, pe.Site), desc("compile-events"))
				continue
			}
			if err != nil {
				r.Violate("compile-events", "events-change-compile", sprintf("Compile(%q) succeeds without events but fails with events=%d: %v", src, ev, err), desc("compile-events"))
				continue
			}
			if p, site := drive.Fence(func() { eval.Dump(ex); eval.DumpTable(ex, true); eval.DumpTable(ex, false) }); p != nil {
				r.Violate("dump-panic", site, sprintf("Dump/DumpTable (events=%d) of Compile(%q) panics: %v (at %s)", ev, src, p, site), desc("dump"))
			}
		}
		for vi, xv := range c06Values {
			if !deep && vi >= 6 {
				break
			}
			if len(src) > 2000 {
				r.Tick()
			}
			for _, mode := range []int{0, 1, 2} { // Eval, TryEval all available, TryEval none available
				f := &c06fetch{x: xv, u: c06Values[(vi+1)%len(c06Values)], avail: mode != 2}
				h.Reset()
				var out drive.Out
				if mode == 0 {
					out = h.Eval(ex, f)
				} else {
					out = h.TryEval(ex, f)
				}
				atomic.AddInt64(&st.evals, 1)
				atomic.AddInt64(&st.transitions, int64(len(h.Events))+1)
				if out.Panic != nil {
					r.Violate("eval-panic", out.Site, sprintf("%s of Compile(%q) with x=%v panics: %v (at %s)", []string{"Eval", "TryEval", "TryEval(nothing cached)"}[mode], src, xv, out.Panic, out.Site),
						map[string]interface{}{"source": src, "infix": c.infix, "allow_undefined": c.undef, "events": ev, "x": fmt.Sprintf("%T(%v)", xv, xv), "mode": mode})
				}
				if ev > 0 {
					last := int16(-1)
					for _, e := range h.Events {
						if e.EventType != eval.LoopEvent {
							continue
						}
						d := e.Data.(eval.LoopEventData)
						if d.CurtIdx <= last {
							r.Violate("loop-order", src, sprintf("Compile(%q): LOOP positions do not strictly increase (%d after %d)", src, d.CurtIdx, last), desc("loop-order"))
							break
						}
						last = d.CurtIdx
					}
				}
			}
		}
	}
}

func c06(r *rep.Run) {
	tokLen, chLen := 5, 5
	r.SetBudget(300e9)
	if r.Thorough() {
		tokLen, chLen = 6, 7
		r.SetBudget(2400e9)
	}
	r.Rule = "every token sequence up to the length bound over a 22-token alphabet (parens, brackets, comma, ints, string, registered/unregistered identifiers, builtin/custom operators, !-forms, keywords, comments, valid and bogus directives) and every character string up to the bound over 18 characters (incl. 2- and 3-byte letters and U+00A0), each under {prefix,infix} x {undefined variables off,on}; identifiers and string literals spelled like the engine's own markers/keywords (fi, if, eventNode, DNE, ...) in operand positions of 11 templates; every builtin name and alias applied to 0..3 operands of every kind (variable, int, string, list, bool), prefix and call syntax; Eval/TryEval/package-level Eval through the contexts the library builds itself under every pair of variable keys from {-32767..32767 boundary values}; every truncation / single-token deletion / duplication / adjacent swap of every valid corpus program; scaled shapes. For every text that compiles: Dump, DumpTable(both), Eval, TryEval(all cached / nothing cached) under bindings of every supported type incl. lists, pre-built sets and nil, in all three event modes; oracle = no panic, exactly one of (program,error), LOOP positions strictly increasing. non-trivial = texts that compile"
	r.Assume = []string{"fetchers and operators supplied by the harness are well behaved (total, deterministic)",
		"hangs are detected by the watchdog (no progress on one input for 180 s), never by a short wall-clock bound"}
	r.Cov["bounds"] = map[string]int{"token_seq_len": tokLen, "char_string_len": chLen}

	ws := make([]*c06worker, r.Workers)
	for i := range ws {
		ws[i] = newC06Worker()
	}
	var st c06stats

	// (a) token sequences: shard on the first two tokens
	nT := len(c06Tokens)
	for L := 0; L <= tokLen; L++ {
		L := L
		shards := 1
		if L >= 2 {
			shards = nT * nT
		} else if L == 1 {
			shards = nT
		}
		done := r.ParallelFor(shards, func(w, s int) {
			idx := make([]int, L)
			fixed := 0
			if L >= 2 {
				idx[0], idx[1] = s/nT, s%nT
				fixed = 2
			} else if L == 1 {
				idx[0] = s
				fixed = 1
			}
			var sb strings.Builder
			for {
				sb.Reset()
				for k, t := range idx {
					if k > 0 && !strings.HasSuffix(c06Tokens[idx[k-1]], "\n") {
						sb.WriteByte(' ')
					}
					sb.WriteString(c06Tokens[t])
				}
				src := sb.String()
				r.Note(w, src)
				for ci := range c06cfgs {
					c06One(r, ws[w], src, ci, &st, true)
				}
				k := L - 1
				for ; k >= fixed; k-- {
					idx[k]++
					if idx[k] < nT {
						break
					}
					idx[k] = 0
				}
				if k < fixed {
					return
				}
			}
		})
		if done < shards {
			r.Cov["token_seq_len_completed"] = L - 1
			break
		}
		r.Cov["token_seq_len_completed"] = L
	}
	r.Sample(4, map[string]interface{}{"token_sequence": "( if x 1 -1 )"})
	// focused alphabets, longer sequences: operator/operand/call shapes of one notation
	type focus struct {
		name string
		toks []string
		max  int
		cfgs []int
	}
	focusMax := 7
	if r.Thorough() {
		focusMax = 8
	}
	for _, fc := range []focus{
		{"infix operators and calls", []string{"(", ")", ",", "1", "x", "f", "+", "!"}, focusMax, []int{2, 3}},
		{"infix lists and comparisons", []string{"[", "]", "(", ")", "1", "-1", "=", "f", ","}, focusMax - 1, []int{2}},
		{"prefix nesting", []string{"(", ")", "x", "1", "and", "if", "f"}, focusMax, []int{0, 1}},
	} {
		fc := fc
		nF := len(fc.toks)
		for L := 6; L <= fc.max && !r.Expired(); L++ {
			L := L
			shards := nF * nF
			done := r.ParallelFor(shards, func(w, s int) {
				idx := make([]int, L)
				idx[0], idx[1] = s/nF, s%nF
				var sb strings.Builder
				for {
					sb.Reset()
					for k, t := range idx {
						if k > 0 {
							sb.WriteByte(' ')
						}
						sb.WriteString(fc.toks[t])
					}
					src := sb.String()
					r.Note(w, src)
					for _, ci := range fc.cfgs {
						c06One(r, ws[w], src, ci, &st, false)
					}
					k := L - 1
					for ; k >= 2; k-- {
						idx[k]++
						if idx[k] < nF {
							break
						}
						idx[k] = 0
					}
					if k < 2 {
						return
					}
				}
			})
			if done == shards {
				r.Cov["focused: "+fc.name+" (len completed)"] = L
			}
		}
	}
	fmt.Printf("phase a done at %.1fs\n", time.Since(r.Start).Seconds())

	// (b) character strings
	nC := len(c06Chars)
	for L := 0; L <= chLen && !r.Expired(); L++ {
		L := L
		shards := 1
		if L >= 2 {
			shards = nC * nC
		} else if L == 1 {
			shards = nC
		}
		done := r.ParallelFor(shards, func(w, s int) {
			idx := make([]int, L)
			fixed := 0
			if L >= 2 {
				idx[0], idx[1] = s/nC, s%nC
				fixed = 2
			} else if L == 1 {
				idx[0] = s
				fixed = 1
			}
			buf := make([]rune, L)
			for {
				for k, c := range idx {
					buf[k] = c06Chars[c]
				}
				src := string(buf)
				r.Note(w, src)
				for ci := range c06cfgs {
					c06One(r, ws[w], src, ci, &st, false)
				}
				k := L - 1
				for ; k >= fixed; k-- {
					idx[k]++
					if idx[k] < nC {
						break
					}
					idx[k] = 0
				}
				if k < fixed {
					return
				}
			}
		})
		if done < shards {
			r.Cov["char_string_len_completed"] = L - 1
			break
		}
		r.Cov["char_string_len_completed"] = L
	}
	r.Sample(8, map[string]interface{}{"char_string": "(!a)"})
	fmt.Printf("phase b done at %.1fs\n", time.Since(r.Start).Seconds())

	// (c) mutations of valid programs
	max := 5
	if r.Thorough() {
		max = 6
	}
	corpus := Programs(c06Corpus(), []term.Ty{B, I}, max)
	var muts int64
	r.ParallelFor(len(corpus), func(w, i int) {
		p := corpus[i]
		for _, infix := range []bool{false, true} {
			src := p.Src
			if infix {
				src = Infix(p.T, 0)
			}
			toks := splitTokens(src)
			seen := map[string]bool{}
			try := func(ts []string) {
				s := strings.Join(ts, " ")
				if seen[s] {
					return
				}
				seen[s] = true
				atomic.AddInt64(&muts, 1)
				r.Note(w, s)
				for ci, c := range c06cfgs {
					if c.infix == infix {
						c06One(r, ws[w], s, ci, &st, false)
					}
				}
			}
			for k := 0; k <= len(toks); k++ {
				try(toks[:k]) // truncation
			}
			for k := range toks {
				del := append(append([]string{}, toks[:k]...), toks[k+1:]...)
				try(del)
				dup := append(append(append([]string{}, toks[:k+1]...), toks[k]), toks[k+1:]...)
				try(dup)
				if k+1 < len(toks) {
					sw := append([]string{}, toks...)
					sw[k], sw[k+1] = sw[k+1], sw[k]
					try(sw)
				}
			}
			// truncation at every character (cuts inside tokens / strings)
			rs := []rune(src)
			for k := 0; k < len(rs); k++ {
				try([]string{string(rs[:k])})
			}
		}
		if i%499 == 0 {
			r.Sample(16, map[string]interface{}{"mutated_program": p.Src})
		}
	})
	r.Cov["mutated_texts"] = muts
	fmt.Printf("phase c done at %.1fs\n", time.Since(r.Start).Seconds())

	// (d) identifiers and string literals spelled like the engine's own
	// markers, keywords and literals, in operand positions of every kind
	{
		names := []string{"fi", "if", "cond", "end", "eventNode", "event", "DNE", "nil", "null", "true_", "T", "F", "and", "not", "in", "x"}
		templates := []string{"(not (and N x x))", "(not (or N x x))", "(+ N 1 2 3 4 5 6 7 8 9)", "(not (and (= x \"N\" x) x))", "(+ (if x N 2) 1 2 3 4 5 6 7 8 9)",
			"(if N 1 2)", "(and (not N) x)", "(f N \"N\" N)", "(not (and x (or N x) x))", "(= (+ 1 2 3 4 5 6 7 8 (f N)) 1)", "(in \"N\" (\"a\" \"N\"))"}
		var n int64
		for _, name := range names {
			for _, tpl := range templates {
				src := strings.ReplaceAll(tpl, "N", name)
				srcs := []string{src}
				if t, err := sx.Parse(src); err == nil {
					srcs = append(srcs, Infix(t, 0))
				}
				for k, s2 := range srcs {
					for ci, c := range c06cfgs {
						if c.infix == (k == 1) {
							c06One(r, ws[0], s2, ci, &st, true)
							n++
						}
					}
				}
			}
		}
		r.Cov["marker_named_texts"] = n
	}

	// (f) every builtin operator name and alias x 0..3 operands of every kind
	{
		var names []string
		for n := range ref.Alias {
			names = append(names, n)
		}
		sort.Strings(names)
		atoms := []string{"x", "1", "\"s\"", "(1 2)", "true", "4294967296", "-9223372036854775808"}
		var texts int64
		r.ParallelFor(len(names), func(w, i int) {
			name := names[i]
			word := name[0] >= 'a' && name[0] <= 'z'
			for cnt := 0; cnt <= 3; cnt++ {
				idx := make([]int, cnt)
				for {
					ops := make([]string, cnt)
					for k, a := range idx {
						ops[k] = atoms[a]
					}
					prefix := "(" + strings.TrimSpace(name+" "+strings.Join(ops, " ")) + ")"
					r.Note(w, prefix)
					for ci, c := range c06cfgs {
						if !c.infix {
							c06One(r, ws[w], prefix, ci, &st, true)
							atomic.AddInt64(&texts, 1)
						} else if word {
							c06One(r, ws[w], name+"("+strings.ReplaceAll(strings.ReplaceAll(strings.Join(ops, ", "), "(1 2)", "[1 2]"), "  ", " ")+")", ci, &st, true)
							atomic.AddInt64(&texts, 1)
						}
					}
					k := cnt - 1
					for ; k >= 0; k-- {
						idx[k]++
						if idx[k] < len(atoms) {
							break
						}
						idx[k] = 0
					}
					if k < 0 {
						break
					}
				}
			}
		})
		r.Cov["builtin_name_x_operand_texts"] = texts
	}

	// (g) contexts the library builds itself (NewCtxFromVars, package-level
	// Eval) under every pair of variable keys incl. negative and large ones
	{
		keys := []eval.VariableKey{-32767, -256, -2, -1, 0, 1, 2, 255, 256, 257, 32767}
		srcs := []string{"(+ a b)", "(if (= a 1) b a)", "(and (= a 1) (= b 2))", "(+ a 1)"}
		var n int64
		for _, ka := range keys {
			for _, kb := range keys {
				if ka == kb {
					continue
				}
				for undef := 0; undef < 2; undef++ {
					for bound := 0; bound < 4; bound++ { // bit 0: a bound, bit 1: b bound
						vals := map[string]interface{}{}
						if bound&1 != 0 {
							vals["a"] = int64(1)
						}
						if bound&2 != 0 {
							vals["b"] = 2
						}
						for _, src := range srcs {
							cfg := eval.NewConfig()
							cfg.VariableKeyMap["a"], cfg.VariableKeyMap["b"] = ka, kb
							if undef == 1 {
								cfg.CompileOptions[eval.AllowUndefinedVariable] = true
							}
							d := map[string]interface{}{"source": src, "keys": fmt.Sprint(cfg.VariableKeyMap), "allow_undefined": undef == 1, "bound": fmt.Sprint(vals)}
							var e *eval.Expr
							var err error
							if p, site := drive.Fence(func() { e, err = eval.Compile(cfg, src) }); p != nil {
								r.Violate("compile-panic", site, sprintf("Compile(%q) with keys %v panics: %v", src, cfg.VariableKeyMap, p), d)
								continue
							}
							if err != nil {
								continue
							}
							for mode := 0; mode < 3; mode++ {
								n++
								p, site := drive.Fence(func() {
									switch mode {
									case 0:
										_, _ = e.Eval(eval.NewCtxFromVars(cfg, vals))
									case 1:
										_, _ = e.TryEval(eval.NewCtxFromVars(cfg, vals))
									default:
										_, _ = eval.Eval(src, vals, eval.ExtendConf(cfg))
									}
								})
								if p != nil {
									r.Violate("eval-panic", site, sprintf("%s with the library's own context under keys %v panics: %v (at %s)", []string{"Eval(NewCtxFromVars)", "TryEval(NewCtxFromVars)", "package-level Eval"}[mode], cfg.VariableKeyMap, p, site), d)
								}
							}
						}
					}
				}
			}
		}
		// (g2) a context the library built BEFORE later registrations on the same
		// config (a caller that prepares its context first and keeps extending the
		// config): the program may use keys the context has never heard of; the
		// answer is a value or an error, never a panic. Later keys are >= 0 (the
		// library never builds a slice-backed context when a key is negative).
		var n2 int64
		for _, ka := range []eval.VariableKey{0, 1, 2, 7, 255} {
			for _, kb := range []eval.VariableKey{0, 1, 2, 3, 8, 255, 256, 257, 300, 32767} {
				if ka == kb {
					continue
				}
				for undef := 0; undef < 2; undef++ {
					for how := 0; how < 2; how++ {
						for _, src := range []string{"(+ a b)", "(+ b a)", "(if (< b 3) 1 2)", "(and (= a 1) (= 1 b))", "(+ a b 1)", "(if (= a 1) b a)", "(or (= a 2) (> b 1) (= b a))", "(= (+ b 1) a)"} {
							for optOn := 0; optOn < 2; optOn++ {
								cfg := eval.NewConfig(eval.Optimizations(optOn == 1))
								cfg.VariableKeyMap["a"] = ka
								if undef == 1 {
									cfg.CompileOptions[eval.AllowUndefinedVariable] = true
								}
								vals := map[string]interface{}{"a": int64(1), "b": int64(2)}
								early := eval.NewCtxFromVars(cfg, vals)
								if how == 0 {
									cfg.VariableKeyMap["b"] = kb
								} else {
									eval.GetOrRegisterKey(cfg, "b")
								}
								d := map[string]interface{}{"source": src, "keys": fmt.Sprint(cfg.VariableKeyMap), "allow_undefined": undef == 1, "history": "NewCtxFromVars, then b registered, then Compile"}
								var e *eval.Expr
								var err error
								if p, site := drive.Fence(func() { e, err = eval.Compile(cfg, src) }); p != nil {
									r.Violate("compile-panic", site, sprintf("Compile(%q) with keys %v panics: %v", src, cfg.VariableKeyMap, p), d)
									continue
								}
								if err != nil {
									continue
								}
								for mode := 0; mode < 2; mode++ {
									n2++
									p, site := drive.Fence(func() {
										if mode == 0 {
											_, _ = e.Eval(early)
										} else {
											_, _ = e.TryEval(early)
										}
									})
									if p != nil {
										r.Violate("eval-panic", site, sprintf("%s of %s with a context NewCtxFromVars built before b was registered (keys now %v) panics: %v (at %s)", []string{"Eval", "TryEval"}[mode], src, cfg.VariableKeyMap, p, site), d)
									}
								}
							}
						}
					}
				}
			}
		}
		n += n2
		st.evals += n
		r.Cov["library_context_runs"] = n
		r.Cov["library_context_built_before_registration_runs"] = n2
	}

	// (e) scaled shapes
	c06Scaled(r, ws, &st)
	fmt.Printf("phase e done at %.1fs\n", time.Since(r.Start).Seconds())

	r.Add(st.inputs, st.transitions+st.inputs, st.evals, st.evals+st.inputs, st.compiled)
	r.Cov["texts_tried"] = st.inputs
	r.Cov["texts_that_compile"] = st.compiled
	r.Cov["distinct_compiled_programs_evaluated_per_worker_sum"] = st.distinct
	r.Finish()
}

// c06Corpus: valid programs whose mutations are explored (strings, lists,
// x/u variables, custom operator f).
func c06Corpus() *term.Alphabet {
	return &term.Alphabet{
		Leaves: map[term.Ty][]*term.Term{
			B: {term.Const(true), term.Var("x", B)},
			I: {term.Const(1), term.Const(-1), term.Var("x", I)},
		},
		Ops: []term.OpSig{
			sig("and", B, B, B), sig("!", B, B),
			{Name: "if", Args: []term.Ty{B, I, I}, Ret: I, If: true},
			sig("=", B, I, I), sig("!=", B, I, I), sig("+", I, I, I), sig("-", I, I, I), sig("f", I, I, I, I),
			sig("f", I),
		},
	}
}

func splitTokens(src string) []string {
	src = strings.NewReplacer("(", " ( ", ")", " ) ", "[", " [ ", "]", " ] ", ",", " , ").Replace(src)
	return strings.Fields(src)
}

func c06Scaled(r *rep.Run, ws []*c06worker, st *c06stats) {
	nest := func(open, close string, n int, core string) string {
		return strings.Repeat(open, n) + core + strings.Repeat(close, n)
	}
	var shapes []struct{ name, src string }
	add := func(name, src string) { shapes = append(shapes, struct{ name, src string }{name, src}) }
	// Dump is cubic in the nesting depth (it re-splits and re-indents the
	// child text at every level) and ReduceNesting is quadratic in the depth
	// of a same-operator nest, so nested shapes that compile are kept small;
	// flat/linear shapes go to 100000 (far beyond every limit: must be rejected
	// or handled, never crash).
	deep := []int{100, 400}
	flat := []int{100, 1000, 100000}
	if r.Thorough() {
		deep = []int{100, 400, 1000} // (Dump of a 3000-deep nest takes minutes: slow, not a hang)
		flat = []int{100, 1000, 20000, 100000}
	}
	for _, n := range deep {
		add(fmt.Sprintf("not-chain depth %d", n), nest("(not ", ")", n, "true"))
		add(fmt.Sprintf("if chain depth %d", n), nest("(if true ", " 0)", n, "1"))
		add(fmt.Sprintf("and-nest depth %d", n), nest("(and x ", ")", n, "x"))
		add(fmt.Sprintf("infix chain of %d", n), "1"+strings.Repeat(" + 1", n))
		add(fmt.Sprintf("infix bang chain of %d", n), strings.Repeat("! ", n)+"true")
	}
	for _, n := range flat {
		add(fmt.Sprintf("paren depth %d", n), nest("(", ")", n, ""))
		add(fmt.Sprintf("open parens %d", n), strings.Repeat("(", n))
		add(fmt.Sprintf("close parens %d", n), strings.Repeat(")", n))
		add(fmt.Sprintf("flat + with %d operands", n), "(+"+strings.Repeat(" 1", n)+")")
		add(fmt.Sprintf("%d-char identifier", n), "(= "+strings.Repeat("a", n)+" 1)")
		add(fmt.Sprintf("%d-char string", n), "(= \""+strings.Repeat("é ", n)+"\" x)")
		add(fmt.Sprintf("%d comment lines", n), strings.Repeat(";c\n", n/10)+"(+ 1 1)")
		add(fmt.Sprintf("list of %d", n), "(in 1 ("+strings.Repeat(" 1", n)+"))")
		add(fmt.Sprintf("not-chain depth %d (beyond the node limit)", n*1000/1000), nest("(not ", ")", n, "true")+strings.Repeat(" ", 0))
	}
	// nested and/or groups that ReduceNesting merges into one wide node
	for _, k := range []int{60, 64, 100, 127} {
		g := "(and " + strings.TrimSpace(strings.Repeat("x ", k)) + ")"
		o := "(or " + strings.TrimSpace(strings.Repeat("x ", k)) + ")"
		add(fmt.Sprintf("2 and-groups of %d under not", k), "(not (and "+g+" "+g+"))")
		add(fmt.Sprintf("3 or-groups of %d at the root", k), "(or "+o+" "+o+" "+o+")")
		add(fmt.Sprintf("infix && chain of %d", 2*k), strings.TrimSuffix(strings.Repeat("x && ", 2*k), " && "))
		add(fmt.Sprintf("infix || chain of %d in a call", 2*k+2), "f("+strings.TrimSuffix(strings.Repeat("x || ", 2*k+2), " || ")+")")
	}
	r.ParallelFor(len(shapes)*len(c06cfgs), func(wk, i int) {
		s := shapes[i/len(c06cfgs)]
		r.Note(wk, s.name)
		t0 := time.Now()
		c06One(r, ws[wk], s.src, i%len(c06cfgs), st, true)
		if d := time.Since(t0); d > 3*time.Second && os.Getenv("VERIF_DEBUG") != "" {
			fmt.Printf("slow shape %s cfg %d: %.1fs\n", s.name, i%len(c06cfgs), d.Seconds())
		}
		r.Sample(24, map[string]interface{}{"scaled_shape": s.name})
	})
	r.Cov["scaled_shapes"] = len(shapes)
}
