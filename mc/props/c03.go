package props

import (
	"fmt"

	eval "github.com/onheap/eval"

	"verifmc/drive"
	"verifmc/ref"
	"verifmc/rep"
	"verifmc/term"
)

func init() { Registry["C03"] = c03 }

// twoLeafBool lists the and/or nodes with two leaf operands (the only nodes
// where FastEvaluation may fetch an operand R1 would skip).
func twoLeafBool(t *term.Term) []*term.Term {
	var out []*term.Term
	t.Walk(func(n *term.Term) {
		if n.K == term.KOp && (term.IsAnd(n.Name) || term.IsOr(n.Name)) && len(n.Kids) == 2 &&
			(n.Kids[0].K == term.KConst || n.Kids[0].K == term.KVar) && (n.Kids[1].K == term.KConst || n.Kids[1].K == term.KVar) {
			out = append(out, n)
		}
	})
	return out
}

// c03Match decides whether the observed (outcome, trace) is one that
// left-to-right short-circuit evaluation of the Dump tree can produce, given
// that under FastEvaluation each two-leaf operator may fetch both leaves
// first. It returns the expected trace of the closest policy for reports.
func c03Match(d *term.Term, vars []term.VarDecl, vals []interface{}, fe bool, got drive.Out, trace []ref.Ev) (bool, []ref.Ev, drive.Out) {
	try := func(paired func(*term.Term) bool) (bool, []ref.Ev, drive.Out) {
		env := envFor(vars, vals)
		env.Paired = paired
		v, err := env.Eval(d)
		want := refOut(v, err)
		return drive.SameOutcome(got, want) && ref.TraceEqual(trace, env.Trace), env.Trace, want
	}
	if !fe {
		return try(nil)
	}
	ok, tr, want := try(func(*term.Term) bool { return true })
	if ok {
		return true, tr, want
	}
	nodes := twoLeafBool(d)
	if len(nodes) == 0 || len(nodes) > 6 {
		return false, tr, want
	}
	for mask := 0; mask < 1<<len(nodes); mask++ {
		set := map[*term.Term]bool{}
		for i, n := range nodes {
			if mask&(1<<i) != 0 {
				set[n] = true
			}
		}
		if ok, _, _ := try(func(t *term.Term) bool { return set[t] }); ok {
			return true, tr, want
		}
	}
	return false, tr, want
}

func c03(r *rep.Run) {
	coreMax, richMax := 7, 6
	r.SetBudget(300e9)
	if r.Thorough() {
		coreMax, richMax = 8, 7
		r.SetBudget(1500e9)
	}
	r.Rule = "every CORE/RICH program up to the node bound x 16 optimisation subsets x {events off, ReportEvent} x every binding of its variables to a value or a sentinel fetch failure; oracle: the ordered log of VariableFetcher.Get calls and registered-operator calls (names, argument snapshots, results, failures) recorded by the harness equals the trace of left-to-right short-circuit evaluation (R1) of the tree parsed from Dump, and so does the outcome; under FastEvaluation a two-leaf operator may fetch both leaves first (every per-node choice is accepted, nothing else). With optimisations off the Dump tree must equal the source tree. TryEval with one variable unknown performs the same effects whether the fetcher reports it as not cached or as cached with the DNE marker as value. Plus nested evaluations: while a registered operator runs, the same compiled program (operand widths 3..40: all operand-stack classes) is evaluated to completion under another binding; the outer Eval/TryEval must still match R1 for its own binding; and `if` conditions bound to every kind of non-boolean value (8 shapes): evaluation fails at the condition and neither branch runs. non-trivial = executions in which R1 skips at least one effect (short-circuit / untaken branch) or fails"
	r.Assume = []string{"the independent Dump reader (mc/sx) is correct on the plain literals these alphabets use",
		"small-scope hypothesis on tree size"}
	r.Cov["bounds"] = map[string]int{"core_max_nodes": coreMax, "rich_max_nodes": richMax}
	progs, nCore := corpus(coreMax, richMax)
	r.Cov["programs_core"], r.Cov["programs_rich"] = nCore, len(progs)-nCore
	aliasMax := 5
	if r.Thorough() {
		aliasMax = 6
	}
	progs = withAliases(progs, aliasMax)
	progs = withMerged(progs, 5)
	progs = append(loneLeafPrograms(), progs...)
	r.Cov["programs_incl_alias_spellings"] = len(progs)
	hs := harnesses(r.Workers)
	opts := optMatrix(0, 1)
	for _, o := range optMatrix(0) {
		o.Undef = 1 // every variable resolved by name (undefined-variable mode)
		opts = append(opts, o)
	}
	// programs that call a pure registered operator are also compiled with that
	// operator DECLARED stateless: the declaration licenses compile-time folding
	// over constants (visible in Dump), not skipping or merging calls at run time
	var optsDeclared []drive.Opt
	for _, o := range optMatrix(0) {
		o.Stateless = true
		optsDeclared = append(optsDeclared, o)
	}
	callsPure := func(p *Prog) bool {
		found := false
		p.T.Walk(func(n *term.Term) {
			if n.K == term.KOp {
				switch n.Name {
				case "p", "q", "g", "h", "d", "cat":
					found = true
				}
			}
		})
		return found
	}
	done := r.ParallelFor(len(progs), func(w, i int) {
		p := progs[i]
		h := hs[w]
		r.Note(w, p.Src)
		popts := opts
		if callsPure(p) {
			popts = append(append([]drive.Opt{}, opts...), optsDeclared...)
		}
		cs := compileAll(r, h, p, popts)
		trees := make([]*term.Term, len(cs))
		effects := make([]int, len(cs))
		for k := range cs {
			d, text, err := dumpTree(cs[k].e)
			if err != nil {
				r.Violate("dump-unreadable", p.Src+cs[k].o.String(), sprintf("Dump output cannot be read back: %v", err), caseDesc(p.Src, cs[k].o, nil, nil, nil, map[string]interface{}{"dump": text}))
				continue
			}
			trees[k] = d
			effects[k] = countEffects(d)
			if cs[k].o.OptBits() == 0 && !term.Equal(d, p.T) {
				r.Violate("dump-differs-unoptimised", p.Src, "with optimisations off Dump does not show the source tree", caseDesc(p.Src, cs[k].o, nil, nil, nil, map[string]interface{}{"dump": text}))
			}
		}
		vals := make([]interface{}, len(p.Vars))
		var nb, nt, tr, ex int64
		drive.ForBindings(Doms(p.Vars, true), vals, func() bool {
			nb++
			if nb%512 == 0 {
				r.Note(w, p.Src) // progress within one program (many bindings)
			}
			for k := range cs {
				if trees[k] == nil {
					continue
				}
				c := &cs[k]
				copy(c.f.Vals, vals)
				h.Reset()
				got := h.Eval(c.e, c.f)
				ex++
				tr += int64(len(h.Trace)) + 1
				if got.Err != nil || len(h.Trace) < effects[k] {
					nt++
				}
				ok, wantTrace, want := c03Match(trees[k], p.Vars, vals, c.o.FE, got, h.Trace)
				if !ok {
					kind := "trace"
					msg := "the fetches/operator calls performed differ from left-to-right short-circuit evaluation of the Dump tree"
					if !drive.SameOutcome(got, want) {
						kind = "outcome"
						msg = sprintf("Eval=%s but short-circuit evaluation of the Dump tree gives %s", got, want)
					}
					r.Violate(kind, p.Src+c.o.String(), msg, caseDesc(p.Src, c.o, p.Vars, vals, nil,
						map[string]interface{}{"dump_tree": trees[k].Src(), "got_trace": traceStr(h.Trace), "want_trace": traceStr(wantTrace), "got": got.String(), "want": want.String()}))
				}
				if len(h.Protocol) > 0 {
					r.Violate("fetcher-protocol", p.Src+c.o.String(), h.Protocol[0], caseDesc(p.Src, c.o, p.Vars, vals, nil, nil))
				}
				// EvalBool is Eval plus a type check: the same effects, also when the
				// fetcher keeps nothing cached (every variable is fetched on demand)
				if p.T.Ty == B && c.o.Events == 0 {
					evalTrace := append([]ref.Ev(nil), h.Trace...)
					h.Reset()
					var bv bool
					var berr error
					pn, site := drive.Fence(func() { bv, berr = c.e.EvalBool(&eval.Ctx{VariableFetcher: uncached{c.f}}) })
					ex++
					gotB := drive.Out{Val: bv, Err: berr, Panic: pn, Site: site}
					wantB := got
					if _, isBool := got.Val.(bool); got.Err == nil && !isBool {
						wantB = drive.Out{Err: fmt.Errorf("not a boolean")}
					}
					if berr != nil {
						gotB.Val = nil
					}
					if !drive.SameOutcome(gotB, wantB) || !ref.TraceEqual(evalTrace, h.Trace) {
						r.Violate("evalbool-trace", p.Src+c.o.String(), sprintf("EvalBool with a fetcher that keeps nothing cached gives %s and performs %v; Eval gives %s and performs %v", gotB, traceStr(h.Trace), got, traceStr(evalTrace)),
							caseDesc(p.Src, c.o, p.Vars, vals, nil, nil))
					}
					h.Trace = append(h.Trace[:0], evalTrace...)
				}
				// TryEval with every variable available performs the same effects
				if c.o.Events != 0 || c.o.Undef != 0 {
					continue
				}
				h.Reset()
				gotT := h.TryEval(c.e, c.f)
				ex++
				// an unknown variable is unknown however the fetcher says so: reported
				// as not cached, or cached with the DNE marker as its value — the
				// same result and the same effects (first and last variable)
				if b := c.o.OptBits(); (b == 0 || b == 15) && len(p.Vars) > 0 {
					saved := append([]ref.Ev(nil), h.Trace...)
					for _, u := range []int{0, len(p.Vars) - 1} {
						if _, failing := vals[u].(error); failing || (u == 0 && len(p.Vars) == 1 && u != 0) {
							continue
						}
						av := make([]bool, len(p.Vars))
						for x := range av {
							av[x] = x != u
						}
						c.f.Avail = av
						h.Reset()
						g1 := h.TryEval(c.e, c.f)
						t1 := append([]ref.Ev(nil), h.Trace...)
						h.Reset()
						g2 := h.TryEval(c.e, dneValued{c.f})
						ex += 2
						c.f.Avail = nil
						if !drive.SameOutcome(g1, g2) || (g1.Err == nil && isDNE(g1.Val) != isDNE(g2.Val)) || !ref.TraceEqual(t1, h.Trace) {
							r.Violate("tryeval-dne-valued", p.Src+c.o.String(), sprintf("TryEval with %s unknown: reported as not cached it gives %s, cached with the DNE marker as value it gives %s (or performs other fetches / operator calls)", p.Vars[u].Name, g1, g2), caseDesc(p.Src, c.o, p.Vars, vals, av,
								map[string]interface{}{"trace_not_cached": traceStr(t1), "trace_dne_valued": traceStr(h.Trace)}))
						}
						if len(p.Vars) == 1 {
							break
						}
					}
					h.Trace = append(h.Trace[:0], saved...)
				}
				if okT, wantTraceT, wantT := c03Match(trees[k], p.Vars, vals, c.o.FE, gotT, h.Trace); !okT {
					r.Violate("tryeval-trace", p.Src+c.o.String(), sprintf("TryEval (every variable available) gives %s / performs different fetches and operator calls than short-circuit evaluation of the Dump tree (%s)", gotT, wantT), caseDesc(p.Src, c.o, p.Vars, vals, nil,
						map[string]interface{}{"dump_tree": trees[k].Src(), "got": gotT.String(), "want": wantT.String(), "got_trace": traceStr(h.Trace), "want_trace": traceStr(wantTraceT)}))
				}
			}
			return true
		})
		r.Add(nb, tr, ex, ex, nt)
		if i%1499 == 0 {
			r.Sample(12, map[string]interface{}{"program": p.Src, "configs": len(cs), "bindings": nb})
		}
	})
	r.Cov["programs_completed"] = done
	c03Nested(r)
	c03IllTypedIf(r)
	r.Finish()
}

// c03Nested: evaluations of ONE compiled program that overlap without any
// concurrency: a registered operator, while it runs, evaluates the same
// program to completion under another binding (a rule that consults the same
// rule for another subject). The outer evaluation must still perform exactly
// the effects of short-circuit evaluation of its own binding. Widths cover
// the operand-stack classes (<= 8, 9..16, > 16 pending operands).
func c03Nested(r *rep.Run) {
	h := drive.NewHarness()
	var runs, nontrivial int64
	for _, w := range []int{3, 7, 8, 9, 15, 16, 17, 18, 25, 40} {
		mk := func(root string, ty term.Ty) *Prog {
			kids := make([]*term.Term, w)
			for i := range kids {
				kids[i] = term.Var("n", I)
			}
			kids[w/2] = term.Op("g", I, term.Var("n", I))
			return MkProg(term.If(term.Op("=", B, term.Op(root, ty, kids...), term.Op(root, ty, term.Var("n", I), term.Var("n", I))),
				term.Op("g", I, term.Const(2)), term.Op("d", I, term.Var("n", I), term.Const(3))))
		}
		progs := []*Prog{mk("+", I), mk("cat", I)}
		// an n-ary equality as the condition itself
		{
			kids := make([]*term.Term, w)
			for i := range kids {
				kids[i] = term.Var("n", I)
			}
			kids[w/2] = term.Op("g", I, term.Var("n", I))
			progs = append(progs, MkProg(term.If(term.Op("=", B, kids...), term.Op("g", I, term.Const(2)), term.Op("d", I, term.Var("n", I), term.Const(3)))))
		}
		for _, p := range progs {
			for _, o := range []drive.Opt{{}, {CF: true, RN: true, FE: true, RO: true}, {FE: true}} {
				cs := compileAll(r, h, p, []drive.Opt{o})
				if len(cs) != 1 {
					continue
				}
				c := &cs[0]
				tree, _, err := dumpTree(c.e)
				if err != nil {
					continue
				}
				// bindings: A makes the condition true, B makes it false
				bind := func(kind int) []interface{} {
					vals := make([]interface{}, len(p.Vars))
					for i := range vals {
						switch kind {
						case 0:
							vals[i] = int64(0)
						case 1:
							vals[i] = int64(i + 1)
						default:
							vals[i] = int64(7)
						}
					}
					return vals
				}
				inner := drive.NewFetcher(h, p.Vars, o)
				for outerK := 0; outerK < 3; outerK++ {
					for innerK := 0; innerK < 3; innerK++ {
						for mode := 0; mode < 2; mode++ {
							for innerMode := 0; innerMode < 4; innerMode++ {
								// innerMode 2, 3: the nested evaluation is made with the very
								// context the engine handed to the operator (same *Ctx, hence
								// the outer binding), Eval / TryEval
								if innerMode >= 2 && innerK != outerK {
									continue
								}
								outerVals := bind(outerK)
								copy(c.f.Vals, outerVals)
								copy(inner.Vals, bind(innerK))
								depth := 0
								var innerOut drive.Out
								h.OpHookCtx = func(name string, ctx *eval.Ctx, _ []eval.Value) {
									if name != "g" || depth > 0 || ctx == nil {
										return
									}
									depth++
									saved := len(h.Trace)
									switch innerMode {
									case 0:
										innerOut = h.Eval(c.e, inner)
									case 1:
										innerOut = h.TryEval(c.e, inner)
									default:
										var v eval.Value
										var err error
										pn, site := drive.Fence(func() {
											if innerMode == 2 {
												v, err = c.e.Eval(ctx)
											} else {
												v, err = c.e.TryEval(ctx)
											}
										})
										innerOut = drive.Out{Val: v, Err: err, Panic: pn, Site: site}
									}
									h.Trace = h.Trace[:saved]
									depth--
								}
								h.Reset()
								var got drive.Out
								if mode == 0 {
									got = h.Eval(c.e, c.f)
								} else {
									got = h.TryEval(c.e, c.f)
								}
								h.OpHookCtx = nil
								runs++
								if outerK != innerK {
									nontrivial++
								}
								ok, wantTrace, want := c03Match(tree, p.Vars, outerVals, o.FE, got, h.Trace)
								if !ok {
									r.Violate("nested-evaluation", sprintf("%d%s", w, o), sprintf("while operator g ran, the same compiled program was evaluated under another binding; afterwards the outer %s gives %s / performs other effects than short-circuit evaluation of its own binding (%s)", []string{"Eval", "TryEval"}[mode], got, want),
										caseDesc(p.Src, o, p.Vars, outerVals, nil, map[string]interface{}{"nested_binding": fmt.Sprint(inner.Vals), "nested_entry": []string{"Eval", "TryEval", "Eval with the context the operator was handed", "TryEval with the context the operator was handed"}[innerMode], "nested_result": innerOut.String(), "got_trace": traceStr(h.Trace), "want_trace": traceStr(wantTrace)}))
								}
							}
						}
					}
				}
			}
		}
	}
	r.Cov["nested_evaluation_runs"] = runs
	r.Add(0, runs, runs, runs, nontrivial)
}

// c03IllTypedIf: an `if` whose condition evaluates to something that is not a
// boolean fails AT the condition: neither branch is evaluated (no fetch, no
// operator call of either branch happens). Condition: a variable bound to
// every kind of non-boolean value, directly and as the result of a registered
// operator; the `if` at the root, under an arithmetic operator and inside a
// branch of another `if`. (and/or are kept out of these shapes: what they do
// with non-boolean operands is C18's open finding.)
func c03IllTypedIf(r *rep.Run) {
	h := drive.NewHarness()
	h.Register("idv", func(a []interface{}) (interface{}, error) { // identity: hands any value through
		if len(a) != 1 {
			return nil, ref.ErrBuiltin
		}
		return a[0], nil
	})
	customs := map[string]ref.CustomFn{}
	for k, v := range ref.Customs {
		customs[k] = v
	}
	customs["idv"] = func(a []interface{}) (interface{}, error) {
		if len(a) != 1 {
			return nil, ref.ErrBuiltin
		}
		return a[0], nil
	}
	c := func() *term.Term { return term.Var("b", B) } // the condition (typed B for the enumerator, bound to anything)
	b := func() *term.Term { return term.Var("b", B) }
	n := func() *term.Term { return term.Var("n", I) }
	thenB, elseB := func() *term.Term { return term.Op("p", B, b()) }, func() *term.Term { return term.Op("q", B, b(), b()) }
	thenI, elseI := func() *term.Term { return term.Op("g", I, n()) }, func() *term.Term { return term.Op("d", I, n(), n()) }
	progs := []*Prog{
		MkProg(term.If(c(), thenB(), elseB())),
		MkProg(term.If(c(), thenI(), elseI())),
		MkProg(term.If(term.Op("idv", B, c()), thenI(), elseI())),
		MkProg(term.Op("+", I, term.Const(1), term.If(c(), thenI(), elseI()), term.Op("g", I, n()))),
		MkProg(term.If(b(), term.If(c(), thenI(), term.Const(2)), elseI())),
		MkProg(term.If(b(), term.Const(1), term.If(c(), term.Const(2), elseI()))),
		MkProg(term.Op("not", B, term.If(c(), thenB(), elseB()))),
		MkProg(term.Op("=", B, term.If(c(), thenI(), elseI()), n())),
	}
	condVals := []interface{}{true, false, int64(1), int64(0), "true", "", nil, []int64{1}, []string{}}
	opts := optMatrix(0, 1)
	var runs, nontrivial int64
	for _, p := range progs {
		cs := compileAll(r, h, p, opts)
		// which variable is the condition: the first variable of the innermost
		// ill-typed if; MkProg numbers variables in source order, so find it by walking
		condIdx := -1
		p.T.Walk(func(t *term.Term) {
			if t.K == term.KIf && condIdx < 0 {
				cv := t.Kids[0]
				if cv.K == term.KOp {
					cv = cv.Kids[0]
				}
				if cv.K == term.KVar && t.Kids[1].K != term.KIf && t.Kids[2].K != term.KIf {
					for i, v := range p.Vars {
						if v.Name == cv.Name {
							condIdx = i
						}
					}
				}
			}
		})
		if condIdx < 0 {
			continue
		}
		doms := Doms(p.Vars, false)
		doms[condIdx] = condVals
		vals := make([]interface{}, len(p.Vars))
		for k := range cs {
			cc := &cs[k]
			tree, _, err := dumpTree(cc.e)
			if err != nil {
				continue
			}
			drive.ForBindings(doms, vals, func() bool {
				for mode := 0; mode < 2; mode++ {
					if mode == 1 && cc.o.Events != 0 {
						continue
					}
					copy(cc.f.Vals, vals)
					h.Reset()
					var got drive.Out
					if mode == 0 {
						got = h.Eval(cc.e, cc.f)
					} else {
						got = h.TryEval(cc.e, cc.f)
					}
					runs++
					if _, isB := vals[condIdx].(bool); !isB {
						nontrivial++
					}
					env := &ref.Env{Vals: map[string]interface{}{}, Custom: customs}
					for i, v := range p.Vars {
						env.Vals[v.Name] = vals[i]
					}
					env.Paired = func(*term.Term) bool { return cc.o.FE }
					wv, werr := env.Eval(tree)
					want := refOut(wv, werr)
					okc := drive.SameOutcome(got, want) && ref.TraceEqual(h.Trace, env.Trace)
					if !okc && cc.o.FE {
						env2 := &ref.Env{Vals: env.Vals, Custom: customs}
						wv, werr = env2.Eval(tree)
						okc = drive.SameOutcome(got, refOut(wv, werr)) && ref.TraceEqual(h.Trace, env2.Trace)
					}
					if !okc {
						r.Violate("ill-typed-condition", p.Src+cc.o.String(), sprintf("%s with a non-boolean `if` condition gives %s / other effects than failing at the condition (%s)", []string{"Eval", "TryEval"}[mode], got, want),
							caseDesc(p.Src, cc.o, p.Vars, vals, nil, map[string]interface{}{"dump_tree": tree.Src(), "got_trace": traceStr(h.Trace), "want_trace": traceStr(env.Trace), "condition_value": fmt.Sprintf("%T(%v)", vals[condIdx], vals[condIdx])}))
						return false
					}
				}
				return true
			})
		}
	}
	r.Cov["ill_typed_condition_runs"] = runs
	r.Add(0, runs, runs, runs, nontrivial)
}

// uncached is a fetcher that keeps nothing cached: every variable has to be
// fetched (Get works, Cached answers false).
type uncached struct{ *drive.Fetcher }

func (u uncached) Cached(eval.VariableKey, string) bool { return false }
