package props

import (
	"fmt"
	"sync"
)

// C07FreeRun runs, for every corpus program, all its calls concurrently from
// real goroutines on one shared Expr, iters times, comparing every outcome
// with the isolated one. Under -race this is the data-race witness.
func C07FreeRun(iters int) (string, error) {
	progs := C07Corpus()
	calls := 0
	for _, p := range progs {
		if p.SeqOnly {
			continue
		}
		iso := make([]string, len(p.Calls))
		for ci, c := range p.Calls {
			e, err := C7Compile(p)
			if err != nil {
				return "", err
			}
			iso[ci] = C7Do(e, p, c, nil)
		}
		e, err := C7Compile(p)
		if err != nil {
			return "", err
		}
		stop := make(chan struct{})
		var drainWG sync.WaitGroup
		if e.EventChan != nil {
			drainWG.Add(1)
			go func() {
				defer drainWG.Done()
				for {
					select {
					case ev := <-e.EventChan:
						_ = fmt.Sprint(ev.Data, ev.Stack) // a consumer that reads the whole event
					case <-stop:
						return
					}
				}
			}()
		}
		var wg sync.WaitGroup
		errs := make(chan error, len(p.Calls)*2)
		for rep := 0; rep < 2; rep++ {
			for ci := range p.Calls {
				ci := ci
				wg.Add(1)
				go func() {
					defer wg.Done()
					for k := 0; k < iters; k++ {
						if got := C7Do(e, p, p.Calls[ci], nil); got != iso[ci] {
							errs <- fmt.Errorf("%s: %s returned %s concurrently but %s in isolation", p.Name, p.Calls[ci].Name, got, iso[ci])
							return
						}
					}
				}()
				calls += iters
			}
		}
		wg.Wait()
		close(stop)
		drainWG.Wait()
		select {
		case err := <-errs:
			return "", err
		default:
		}
	}
	return fmt.Sprintf("race pass: %d concurrent calls over %d shared programs, no race reported, all outcomes equal to isolated ones", calls, len(progs)), nil
}
