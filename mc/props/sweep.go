package props

import (
	eval "github.com/onheap/eval"
	"math"

	"verifmc/drive"
	"verifmc/ref"
	"verifmc/rep"
	"verifmc/sx"
	"verifmc/term"
)

// compileAll compiles p under every option set, reporting programs that fail
// to compile (all enumerated programs are well formed and far below the
// capacity limits).
func compileAll(r *rep.Run, h *drive.Harness, p *Prog, opts []drive.Opt) []compiled {
	cs := make([]compiled, 0, len(opts))
	for _, o := range opts {
		if p.Infix {
			o.Infix = true
		}
		cfg := h.NewConfig(p.Vars, o)
		e, err := h.Compile(cfg, drive.Source(p.Src, o), eventCap(p.Size))
		if err != nil {
			r.Violate("compile", p.Src+o.String(), sprintf("well-formed program does not compile under %s: %v", o, err), caseDesc(p.Src, o, nil, nil, nil, nil))
			continue
		}
		cs = append(cs, compiled{o: o, p: p, e: e, f: drive.NewFetcher(h, p.Vars, o), cfg: cfg})
	}
	return cs
}

// optMatrix: the 16 optimisation subsets x the given event modes.
func optMatrix(events ...int) []drive.Opt {
	var out []drive.Opt
	for _, ev := range events {
		for b := 0; b < 16; b++ {
			o := drive.FromBits(b)
			o.Events = ev
			out = append(out, o)
		}
	}
	return out
}

// dumpTree parses Dump(e) with the independent reader.
func dumpTree(e *eval.Expr) (t *term.Term, text string, err error) {
	p, _ := drive.Fence(func() { text = eval.Dump(e) })
	if p != nil {
		return nil, "", &drive.PanicErr{V: p}
	}
	t, err = sx.Parse(text)
	return t, text, err
}

// corpus returns the CORE and RICH programs up to the given bounds.
func corpus(coreMax, richMax int) (progs []*Prog, nCore int) {
	// hand-written and wide programs first: they are few, and a run that is cut
	// short by its time budget has then covered them
	progs = append(progs, extraPrograms()...)
	progs = append(progs, widePrograms(5)...)
	core := Programs(Core(), []term.Ty{B}, coreMax)
	nCore = len(core)
	progs = append(progs, core...)
	progs = append(progs, Programs(Rich(), []term.Ty{B, I}, richMax)...)
	return progs, nCore
}

// widePrograms: operators with 2..7 operands whose result depends on the
// ORDER of the operands (registered variadic `cat`, builtin - and /), bare and
// in and/or/if contexts: the engine copies n-ary operands off the stack, uses
// a two-slot buffer for binary ones and inlines two-leaf ones.
func widePrograms(maxAr int) []*Prog {
	var out []*Prog
	for k := 2; k <= maxAr; k++ {
		kids := func() []*term.Term {
			ks := make([]*term.Term, k)
			for i := range ks {
				ks[i] = term.Var("n", I)
			}
			return ks
		}
		cat := term.Op("cat", I, kids()...)
		sub := term.Op("-", I, kids()...)
		out = append(out, MkProg(cat), MkProg(sub),
			MkProg(term.Op("and", B, term.Var("b", B), term.Op("=", B, cat.Clone(), term.Const(4)))),
			MkProg(term.If(term.Var("b", B), sub.Clone(), term.Op("cat", I, append(kids()[:k-1], term.Op("/", I, term.Const(1), term.Var("n", I)))...))),
			MkProg(term.Op("cat", I, term.Op("cat", I, kids()...), term.Const(1), term.Op("-", I, kids()[:2]...))))
	}
	return out
}

// mergedVariants: the programs obtained by identifying two same-typed
// variables of p (a repeated variable). The enumerated corpus gives every leaf
// its own variable; these variants put the same variable on both operands of
// an operator, which an engine that remembers fetched values would treat
// differently.
func mergedVariants(p *Prog) []*Prog {
	var out []*Prog
	for i := 0; i < len(p.Vars); i++ {
		for j := i + 1; j < len(p.Vars); j++ {
			if p.Vars[i].Ty != p.Vars[j].Ty {
				continue
			}
			t := p.T.Clone()
			t.Walk(func(n *term.Term) {
				if n.K == term.KVar && n.Name == p.Vars[j].Name {
					n.Name = p.Vars[i].Name
				}
			})
			vars := append(append([]term.VarDecl{}, p.Vars[:j]...), p.Vars[j+1:]...)
			out = append(out, &Prog{T: t, Vars: vars, Src: t.Src(), Size: p.Size})
		}
	}
	return out
}

// withMerged appends the repeated-variable variants of every program of at
// most maxSize nodes.
func withMerged(progs []*Prog, maxSize int) []*Prog {
	out := progs
	for _, p := range progs {
		if p.Size <= maxSize {
			out = append(out, mergedVariants(p)...)
		}
	}
	return out
}

// extraPrograms: hand-written programs that are well formed but sit outside
// the typed grammar: = / != are polymorphic, so comparing a non-boolean with a
// boolean literal (or values of different types) is a legitimate `false`.
func extraPrograms() []*Prog {
	n := func() *term.Term { return term.Var("n", I) }
	b := func() *term.Term { return term.Var("b", B) }
	T, F := term.Const(true), term.Const(false)
	var out []*Prog
	add := func(t *term.Term) { out = append(out, MkProg(t)) }
	for _, eq := range []string{"=", "eq", "=="} {
		add(term.Op(eq, B, n(), T))
		add(term.Op(eq, B, T.Clone(), n()))
		add(term.Op(eq, B, n(), term.Named("KT", true)))
		add(term.Op(eq, B, n(), term.Op("=", B, term.Const(1), term.Const(1))))
		add(term.If(term.Op(eq, B, n(), T.Clone()), term.Const(1), term.Const(2)))
		add(term.Op("and", B, term.Op(eq, B, n(), T.Clone()), b()))
		add(term.Op(eq, B, b(), n()))
		add(term.Op(eq, B, term.Op(eq, B, n(), n()), F.Clone()))
		add(term.Op(eq, B, n(), T.Clone(), T.Clone()))
	}
	// nested ifs (depth 2 and 3, every branch position) whose taken branch may
	// yield the value that decides the enclosing and/or, followed by operands
	// that fail: larger than the enumerated bound, so built explicitly
	var nests func(depth int, decide bool) []*term.Term
	nests = func(depth int, decide bool) []*term.Term {
		D := term.Const(decide)
		if depth == 0 {
			return []*term.Term{D, b()}
		}
		var res []*term.Term
		for _, inner := range nests(depth-1, decide) {
			res = append(res, term.If(b(), inner.Clone(), b()), term.If(b(), b(), inner.Clone()))
		}
		return res
	}
	for _, opn := range []string{"and", "or"} {
		decide := opn == "or"
		for depth := 2; depth <= 3; depth++ {
			for _, nst := range nests(depth, decide) {
				if nst.Size() > 11 {
					continue
				}
				add(term.Op(opn, B, nst.Clone(), term.Op("boom", B)))
				add(term.Op(opn, B, b(), nst.Clone(), term.Op("=", B, term.Op("/", I, term.Const(1), term.Const(0)), term.Const(1))))
			}
		}
		// and inside the other operator / under not
		for _, nst := range nests(2, decide)[:4] {
			add(term.Op("not", B, term.Op(opn, B, nst.Clone(), term.Op("boom", B))))
		}
	}
	// parameterless registered operators that succeed, as deciding / neutral operands
	pb := func() *term.Term { return term.Op("p", B, b()) }
	for _, opn := range []string{"and", "or"} {
		dec, neu := "z0", "t0"
		if opn == "or" {
			dec, neu = "t0", "z0"
		}
		add(term.Op(opn, B, term.Op(dec, B), b(), pb()))
		add(term.Op(opn, B, b(), term.Op(dec, B), pb()))
		add(term.Op(opn, B, term.Op(neu, B), pb(), b()))
		add(term.Op(opn, B, term.If(b(), term.Op(dec, B), b()), pb()))
		add(term.Op(opn, B, term.Op("not", B, term.Op(neu, B)), pb(), term.Op(dec, B)))
		add(term.Op(opn, B, term.Op(opn, B, term.Op(dec, B), b()), pb()))
		add(term.Op(opn, B, term.Op(dec, B), term.Op(neu, B)))
	}
	// variables whose NAMES resemble literals, keywords, operators or internal markers
	for _, nm := range []string{"True", "FALSE", "TRUE", "False", "T", "F", "fi", "DNE", "eventNode", "nil", "Inf", "NaN", "x1e3", "e5", "_", "__x", "a.b", "a.b.c", "étoile", "名前", "v01", "O0", "l1", "if_", "and_", "not1", "true_", "xtrue"} {
		kb := func() *term.Term { return term.KeptVar(nm, B) }
		ki := func() *term.Term { return term.KeptVar(nm, I) }
		add(term.Op("not", B, kb()))
		add(term.Op("and", B, kb(), b()))
		add(term.Op("or", B, kb(), term.Op("=", B, term.Op("/", I, n(), term.Const(0)), term.Const(1))))
		add(term.If(kb(), term.Const(1), term.Const(2)))
		add(term.Op("+", I, ki(), term.Const(2), n()))
		add(term.Op("=", B, ki(), ki()))
		add(term.Op("not", B, term.Op("and", B, kb(), b(), b())))
		add(term.Op("+", I, ki(), term.Const(1), term.Const(2), term.Const(3), term.Const(4), term.Const(5), term.Const(6), term.Const(7), n()))
	}
	// xor next to and/or (it is not a short-circuit group: nothing may be merged into or out of it)
	add(term.Op("or", B, term.Op("xor", B, b(), b()), b()))
	add(term.Op("xor", B, term.Op("or", B, b(), b()), b()))
	add(term.Op("and", B, term.Op("xor", B, b(), b()), b()))
	add(term.Op("xor", B, term.Op("and", B, b(), b()), term.Op("xor", B, b(), b())))
	add(term.Op("or", B, b(), term.Op("xor", B, b(), term.Op("or", B, b(), b()))))
	add(term.Op("xor", B, term.Op("xor", B, b(), b()), b()))
	// the empty list literal (typed as an empty string list by the parser) as
	// the collection of `in` / `overlap` with operands of either element type
	{
		empty := func() *term.Term { return &term.Term{K: term.KConst, Val: []string{}, Lit: "()", Ty: term.TSL} }
		sv := func() *term.Term { return term.Var("s", term.TS) }
		add(term.Op("in", B, n(), empty()))
		add(term.Op("in", B, sv(), empty()))
		add(term.Op("not", B, term.Op("in", B, n(), empty())))
		add(term.Op("or", B, term.Op("in", B, n(), empty()), b()))
		add(term.If(term.Op("in", B, n(), empty()), n(), term.Const(7)))
		add(term.Op("in", B, term.Op("+", I, n(), term.Const(1)), empty()))
	}
	// string literals spelled like markers / keywords
	for _, lit := range []string{"fi", "if", "eventNode", "DNE", "true", "nil"} {
		sv := func() *term.Term { return term.Var("s", term.TS) }
		add(term.Op("not", B, term.Op("and", B, term.Op("=", B, sv(), term.Const(lit), sv()), b())))
		add(term.If(term.Op("=", B, sv(), term.Const(lit)), term.Op("+", I, n(), term.Const(1), term.Const(2), term.Const(3), term.Const(4), term.Const(5), term.Const(6), term.Const(7), term.Const(8)), term.Const(0)))
	}
	// every comparison spelling over every literal/variable operand form (the
	// variable domain {0,1} against the literals 0 and 1 gives less, equal and
	// greater in either position), bare and as operand of and / if / not
	{
		m := func() *term.Term { return term.Var("m", I) }
		for _, cmp := range []string{"gt", ">", "lt", "<", "ge", ">=", "le", "<=", "eq", "=", "==", "ne", "!="} {
			for _, c := range []int64{0, 1} {
				forms := []*term.Term{
					term.Op(cmp, B, term.Const(c), n()),
					term.Op(cmp, B, n(), term.Const(c)),
					term.Op(cmp, B, term.Const(c), term.Const(int64(1))),
				}
				if c == 0 {
					forms = append(forms, term.Op(cmp, B, n(), m()), term.Op(cmp, B, n(), n()))
				}
				for _, f := range forms {
					add(f)
					add(term.Op("and", B, b(), f.Clone()))
					add(term.Op("not", B, f.Clone()))
					add(term.If(f.Clone(), n(), term.Const(int64(7))))
				}
			}
		}
		// two comparisons of one variable against two bounds under one and/or
		// (a range check and its relatives): lazy, operand by operand
		// (kept names: the SAME variable x on both sides)
		x := func() *term.Term { return term.KeptVar("x", I) }
		lo := func() *term.Term { return term.KeptVar("lo", I) }
		hi := func() *term.Term { return term.KeptVar("hi", I) }
		cmps := []string{"<", "<=", ">", ">=", "=", "!="}
		for _, c1 := range cmps {
			for _, c2 := range cmps {
				add(term.Op("and", B, term.Op(c1, B, x(), lo()), term.Op(c2, B, x(), hi())))
				add(term.Op("or", B, term.Op(c1, B, x(), lo()), term.Op(c2, B, x(), hi())))
			}
		}
		add(term.Op("and", B, term.Op("ge", B, x(), lo()), term.Op("le", B, x(), hi())))
		add(term.Op("and", B, term.Op("le", B, x(), hi()), term.Op("ge", B, x(), lo())))
		add(term.Op("and", B, b(), term.Op(">=", B, x(), term.Const(int64(0))), term.Op("<=", B, x(), hi())))
		add(term.Op("and", B, term.Op("<=", B, x(), hi()), b(), term.Op(">=", B, x(), lo())))
		add(term.Op("and", B, term.Op(">=", B, x(), lo()), term.Op("<=", B, x(), term.Const(int64(1)))))
		add(term.Op("=", B, x(), x()))
		add(term.Op("<", B, x(), x()))
		add(term.Op("and", B, term.Op("<=", B, x(), lo()), term.Op("<=", B, lo(), x())))
		for _, c := range []int64{0, 1} {
			add(term.Op("between", B, n(), term.Const(c), term.Const(int64(1))))
			add(term.Op("between", B, term.Const(c), n(), term.Const(int64(1))))
			add(term.Op("between", B, term.Const(c), term.Const(int64(0)), n()))
			add(term.Op("between", B, n(), m(), term.Const(c)))
		}
	}
	// registered operators named like and / or / if up to letter case are strict
	{
		pb := func() *term.Term { return term.Op("p", B, b()) }
		div0 := func() *term.Term { return term.Op("=", B, term.Op("/", I, term.Const(int64(1)), term.Const(int64(0))), term.Const(int64(1))) }
		add(term.Op("AND", B, b(), b(), pb()))
		add(term.Op("Or", B, b(), pb(), b()))
		add(term.Op("AND", B, b(), div0()))
		add(term.Op("Or", B, b(), term.Op("boom", B)))
		add(term.Op("and", B, term.Op("Or", B, b(), pb()), b()))
		add(term.Op("or", B, b(), term.Op("AND", B, pb(), b(), b())))
		add(term.Op("not", B, term.Op("Or", B, term.Op("AND", B, b(), pb()), pb())))
		add(term.Op("IF", I, b(), term.Op("g", I, n()), term.Op("g", I, n())))
		add(term.Op("IF", B, b(), pb(), term.Op("boom", B)))
		add(term.If(term.Op("AND", B, b(), pb()), term.Op("IF", I, b(), n(), term.Op("/", I, n(), term.Const(int64(0)))), n()))
	}
	// zero-operand registered operators as the push that takes the operand stack
	// to each size around the evaluator's allocation classes (8, 16)
	for _, dpt := range []int{6, 7, 8, 9, 14, 15, 16, 17, 18} {
		pad := make([]*term.Term, dpt)
		for k := range pad {
			pad[k] = term.Const(int64(k))
		}
		add(term.Op("cat", I, append(append([]*term.Term{}, pad...), term.Op("i0", I))...))
		add(term.Op("cat", I, append(append([]*term.Term{}, pad[:dpt-1]...), n(), term.Op("i0", I), term.Op("i0", I))...))
		add(term.Op("last", B, append(append([]*term.Term{}, pad...), term.Op("and", B, term.Op("t0", B), b()))...))
	}
	// arithmetic folds over constants whose sums and products leave int64
	// (wrap-around is the documented arithmetic; an optimiser that combines
	// constants must wrap at the same places as operand-by-operand evaluation)
	{
		m := func() *term.Term { return term.Var("m", I) }
		big := [][2]int64{{1 << 62, 4}, {1 << 32, 1 << 32}, {1 << 32, 1<<32 + 1}, {math.MaxInt64, 2}, {math.MinInt64, -1}, {-1, math.MinInt64}, {3037000500, 3037000500}, {1 << 62, 1 << 62}}
		for _, op := range []string{"/", "*", "+", "-", "%"} {
			for _, cc := range big {
				c1, c2 := term.Const(cc[0]), term.Const(cc[1])
				add(term.Op(op, I, n(), c1, c2))
				add(term.Op(op, I, c1.Clone(), n(), c2.Clone()))
				add(term.Op(op, I, n(), c1.Clone(), m(), c2.Clone()))
				add(term.Op("=", B, term.Op(op, I, n(), c1.Clone(), c2.Clone()), term.Const(int64(0))))
			}
		}
	}
	for _, ne := range []string{"!=", "ne"} {
		add(term.Op(ne, B, n(), F.Clone()))
		add(term.Op(ne, B, F.Clone(), n()))
		add(term.Op("or", B, term.Op(ne, B, n(), F.Clone()), b()))
		add(term.Op("not", B, term.Op(ne, B, b(), n())))
	}
	return out
}

// withAliases appends, for every program of at most aliasMax nodes, its two
// alias spellings (&,|,!,eq,div / &&,||,==,add) when they differ.
func withAliases(progs []*Prog, aliasMax int) []*Prog {
	out := progs
	for _, p := range progs {
		if p.Size > aliasMax {
			continue
		}
		for mode := 1; mode <= 2; mode++ {
			if a := Aliased(p, mode); a.Src != p.Src {
				out = append(out, a)
			}
		}
	}
	return out
}

func harnesses(n int) []*drive.Harness {
	hs := make([]*drive.Harness, n)
	for i := range hs {
		hs[i] = drive.NewHarness()
		// the caller's config also registers a (wrong) operator under every
		// builtin name and alias: the builtin meaning always wins
		for name := range ref.Alias {
			hs[i].Register(name, func([]interface{}) (interface{}, error) { return "SHADOWED-BUILTIN", nil })
		}
	}
	return hs
}

// loneLeafPrograms: one-node programs (a variable, a constant), which only
// infix notation can write.
func loneLeafPrograms() []*Prog {
	var out []*Prog
	for _, ty := range []term.Ty{B, I} {
		for _, wrap := range []string{"%s", "(%s)", "((%s))"} {
			p := MkProg(term.Var("x", ty))
			p.Src, p.Infix = sprintf(wrap, p.T.Name), true
			out = append(out, p)
		}
	}
	for _, c := range []*term.Term{term.Const(true), term.Const(7)} {
		p := MkProg(c)
		p.Src, p.Infix = "("+c.Lit+")", true
		out = append(out, p)
	}
	return out
}
