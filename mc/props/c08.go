package props

import (
	"context"
	"fmt"
	"os"
	"os/exec"
	"path/filepath"
	"reflect"
	"sort"
	"strings"
	"sync"
	"sync/atomic"
	"time"

	eval "github.com/onheap/eval"

	"verifmc/rep"
	"verifmc/sched"
)

func init() { Registry["C08"] = c08 }

// c8ops are the operators of the C08 configs. f is pure (declared stateless
// in some configs, so Compile may call it while folding: that call is the
// scheduling point of the concurrent harness); g2 is registered but never
// declared stateless.
type c8env struct {
	point  func(string) // scheduler hook (nil when sequential)
	fCalls int64
}

func (en *c8env) ops() map[string]eval.Operator {
	sum := func(name string) eval.Operator {
		return func(ctx *eval.Ctx, params []eval.Value) (eval.Value, error) {
			if name == "f" {
				atomic.AddInt64(&en.fCalls, 1)
				if en.point != nil && ctx == nil {
					en.point("fold:" + name)
				}
			}
			var s int64
			for _, p := range params {
				v, ok := p.(int64)
				if !ok {
					return nil, fmt.Errorf("%s: not an int", name)
				}
				s += v
			}
			return s, nil
		}
	}
	tup := func(ctx *eval.Ctx, params []eval.Value) (eval.Value, error) {
		// a variadic "tuple" constructor that hands its parameter slice back
		return params, nil
	}
	nth := func(ctx *eval.Ctx, params []eval.Value) (eval.Value, error) {
		if len(params) != 2 {
			return nil, fmt.Errorf("nth: two parameters")
		}
		i, ok1 := params[0].(int64)
		l, ok2 := params[1].([]eval.Value)
		if !ok1 || !ok2 || i < 0 || int(i) >= len(l) {
			return nil, fmt.Errorf("nth: bad parameters")
		}
		return l[i], nil
	}
	return map[string]eval.Operator{"tup": tup, "nth": nth, "f": sum("f"), "g2": sum("g2"), "f0": sum("f0"), "f-other": func(ctx *eval.Ctx, params []eval.Value) (eval.Value, error) {
		// a DIFFERENT operator that another config registers under the same name f
		v, err := sum("f")(ctx, params)
		if err != nil {
			return nil, err
		}
		return v.(int64)*10 + 7, nil
	}}
}

// c8Configs builds the three caller configs (fresh objects on every call).
func c8Configs(en *c8env) []*eval.Config {
	ops := en.ops()
	a := eval.NewConfig()
	a.ConstantMap["K1"] = int64(1)
	a.ConstantMap["KS"] = "s"
	// unsorted list constants: the compiled program and the config share them
	// by reference, so an operator that rearranges its operand would rewrite
	// the caller's config
	var bigI []int64
	var bigS []string
	for i := 0; i < 60; i++ {
		bigI = append(bigI, int64((i*37)%61))
		bigS = append(bigS, fmt.Sprintf("s%02d", (i*41)%61))
	}
	a.ConstantMap["BIGI"] = bigI
	a.ConstantMap["BIGS"] = bigS
	a.VariableKeyMap["x"] = 1
	a.VariableKeyMap["y"] = 2
	a.VariableKeyMap["x_alias"] = 1 // two names for one slot (a renamed field)
	a.VariableKeyMap["y_old"] = 2
	for k, v := range ops {
		a.OperatorMap[k] = v
	}
	a.CostsMap["x"] = 100
	a.CostsMap["f"] = -3
	delete(a.OperatorMap, "f-other")
	a.StatelessOperators = append(make([]string, 0, 8), "zz_unregistered", "f0", "f", "tup") // not alphabetical; spare capacity: a shallow copy would share it

	b := eval.NewConfig()
	b.ConstantMap["K1"] = int64(1)
	b.VariableKeyMap["x"] = 1
	b.VariableKeyMap["y"] = 2
	for k, v := range ops {
		b.OperatorMap[k] = v
	}
	delete(b.OperatorMap, "f-other")
	b.CompileOptions[eval.Reordering] = false
	b.CompileOptions[eval.FastEvaluation] = true
	b.CompileOptions[eval.Optimize] = false // the master switch written into the map by hand, next to an explicit entry
	b.CompileOptions[eval.ConstantFolding] = true
	b.StatelessOperators = []string{"tup"}

	c := eval.NewConfig()
	c.ConstantMap["K1"] = int64(2)
	c.OperatorMap["f"] = ops["f-other"] // same name, different operator than in configs A and B
	c.OperatorMap["g2"] = ops["g2"]
	c.CompileOptions[eval.AllowUndefinedVariable] = true
	c.CompileOptions[eval.ReportEvent] = true
	c.StatelessOperators = []string{"f"}
	c.CostsMap["variable"] = 0.5
	// the fourth caller config is the nil config
	return []*eval.Config{a, b, c, nil}
}

const c8nC = 4

var c8Sources = []string{
	"(and (= x 1) (= (f 1 2) 3) y)",
	";;;;optimize:false\n(and (= x 1) (= (f 1 2) 3) y)",
	";; remark\n;;;; reordering:false, constant_folding: true\n(or (= (f 1 2) 3) (< x K1))",
	";;;; fast_evaluation:false\n;;;; reduce_nesting:false\n(and y (and (= x 2) (or y (= 1 1))) (!= (f (f 1 2) 4) 0))",
	"(= (f (f 1 2) 3) u)",
	"(if (= (g2 1 1) 2) (= x 1) (= (f 2 2) x))",
	"(and x",
	";;;;bogus:true\n(+ 1 1)",
	";;;; reordering : maybe\n(+ 1 1)",
	"(= x \"abc)",
	"(and (= (f0) 0) (or (= x 2) y (= 1 1)))",
	";;;; optimize:false, constant_folding:true\n(and (= x (+ 1 2)) (or y (= (f 1 1) 2)))",
	";;;;reordering:false,optimize:true , fast_evaluation : false\n(and (= x (+ 1 2)) (or y (= (f 1 1) 2)))",
	c8BigSrc(),
	"(or (in x BIGI) (in KS BIGS) (= (f 1 2) 3))",
	"(and (= 1 1) (> (+ 2 3) 4) (or (= 2 2) (< 1 0)))",
	"(and (= x_alias 1) (or y_old (= x 2)))",
	"(= (nth x (tup 10 20 30)) 20)",
	"(= (nth x (tup 7 8 9)) 8)",
}

// c8Probe: sources used as the final step of long histories: plain sources
// whose compilation is sensitive to leaked options / stateless declarations /
// rearranged constants.
var c8Probe = map[int]bool{0: true, 4: true, 5: true, 10: true, 13: true, 14: true, 15: true, 16: true, 18: true}

func c8BigSrc() string {
	var is, ss []string
	for i := 0; i < 70; i++ {
		is = append(is, fmt.Sprint(1000+(i*29)%71))
		ss = append(ss, fmt.Sprintf("\"t%02d\"", (i*31)%71))
	}
	return "(or (overlap BIGI (" + strings.Join(is, " ") + ")) (overlap (" + strings.Join(ss, " ") + ") BIGS) (overlap BIGI (5 4 3 2 1)) y)"
}

// c8Snapshot renders the public contents of a Config canonically.
func c8Snapshot(c *eval.Config) string {
	if c == nil {
		return "nil config"
	}
	var sb strings.Builder
	mp := func(name string, m reflect.Value) {
		keys := m.MapKeys()
		ks := make([]string, len(keys))
		for i, k := range keys {
			v := m.MapIndex(k)
			var vs string
			if v.Kind() == reflect.Func {
				vs = fmt.Sprintf("func@%x", v.Pointer())
			} else {
				vs = fmt.Sprintf("%T:%v", v.Interface(), v.Interface())
			}
			ks[i] = fmt.Sprintf("%v=%s", k.Interface(), vs)
		}
		sort.Strings(ks)
		fmt.Fprintf(&sb, "%s{%s}\n", name, strings.Join(ks, ","))
	}
	mp("ConstantMap", reflect.ValueOf(c.ConstantMap))
	mp("OperatorMap", reflect.ValueOf(c.OperatorMap))
	mp("VariableKeyMap", reflect.ValueOf(c.VariableKeyMap))
	mp("CostsMap", reflect.ValueOf(c.CostsMap))
	mp("CompileOptions", reflect.ValueOf(c.CompileOptions))
	fmt.Fprintf(&sb, "Stateless%q nil=%v\n", c.StatelessOperators, c.StatelessOperators == nil)
	return sb.String()
}

type c8fetch map[string]eval.Value

func (f c8fetch) Get(_ eval.VariableKey, s string) (eval.Value, error) {
	v, ok := f[s]
	if !ok {
		return nil, fmt.Errorf("unbound %s", s)
	}
	return v, nil
}
func (f c8fetch) Set(eval.VariableKey, string, eval.Value) error { return nil }
func (f c8fetch) Cached(_ eval.VariableKey, s string) bool       { _, ok := f[s]; return ok }

// c8keyfetch answers registered variables by their KEY (as the library's
// slice fetcher does) and undefined-mode variables by name.
type c8keyfetch struct {
	byKey  map[eval.VariableKey]eval.Value
	byName c8fetch
}

func (f c8keyfetch) Get(k eval.VariableKey, s string) (eval.Value, error) {
	if k == eval.UndefinedVarKey {
		return f.byName.Get(k, s)
	}
	v, ok := f.byKey[k]
	if !ok {
		return nil, fmt.Errorf("no key %d", k)
	}
	return v, nil
}
func (f c8keyfetch) Set(eval.VariableKey, string, eval.Value) error { return nil }
func (f c8keyfetch) Cached(k eval.VariableKey, s string) bool {
	if k == eval.UndefinedVarKey {
		return f.byName.Cached(k, s)
	}
	_, ok := f.byKey[k]
	return ok
}

// c8Result canonically describes what a Compile call produced: the error, or
// the decompiled program, its table and its behaviour on a few bindings.
func c8Result(e *eval.Expr, err error) (out string) {
	defer func() {
		if r := recover(); r != nil {
			out = fmt.Sprintf("PANIC(%v)", r)
		}
	}()
	if err != nil {
		return "error: " + err.Error()
	}
	if e == nil {
		return "nil program, nil error"
	}
	var sb strings.Builder
	sb.WriteString(eval.Dump(e) + "\n" + eval.DumpTable(e, false))
	if e.EventChan == nil {
		e.EventChan = make(chan eval.Event, 4096)
	}
	for _, b := range []c8fetch{{"x": int64(1), "y": true, "u": int64(6)}, {"x": int64(2), "y": false, "u": int64(7)}, {"x": int64(0), "y": true}} {
		v, err := e.Eval(&eval.Ctx{VariableFetcher: b})
		for len(e.EventChan) > 0 {
			<-e.EventChan
		}
		fmt.Fprintf(&sb, "|%v/%v", v, err != nil)
		// the same binding through the keys the caller's configs assign (x=1, y=2)
		kf := c8keyfetch{byKey: map[eval.VariableKey]eval.Value{}, byName: b}
		if x, ok := b["x"]; ok {
			kf.byKey[1] = x
		}
		if y, ok := b["y"]; ok {
			kf.byKey[2] = y
		}
		v, err = e.Eval(&eval.Ctx{VariableFetcher: kf})
		for len(e.EventChan) > 0 {
			<-e.EventChan
		}
		fmt.Fprintf(&sb, "~%v/%v", v, err != nil)
	}
	return sb.String()
}

// c8nilMu serialises the harness's own compilations with the nil config:
// the checker's workers are an artefact of the harness, and whatever the nil
// config stands for is by nature shared between them.
var c8nilMu sync.Mutex

func c8Compile(c *eval.Config, src string) (e *eval.Expr, err error) {
	if c == nil {
		c8nilMu.Lock()
		defer c8nilMu.Unlock()
	}
	defer func() {
		if r := recover(); r != nil {
			e, err = nil, fmt.Errorf("PANIC(%v)", r)
		}
	}()
	return eval.Compile(c, src)
}

func c08(r *rep.Run) {
	depth := 3
	r.SetBudget(300e9)
	if r.Thorough() {
		depth = 4
		r.SetBudget(1800e9)
	}
	r.Rule = "three caller configs with different contents plus the nil config (constants, registered/undefined-mode variables, two names aliased to one variable key, operators with f declared stateless in two of them, costs, options, a stateless list with spare capacity) x 17 sources (every directive form incl. after an ordinary comment, sources failing at each parser stage, undefined variables, stateless and non-stateless operators). (1) every history of Compile(config_i, source_j) calls up to the depth bound (from the third step on the last call is one of 6 probing sources): after every call every config's public contents are unchanged and the result (error text, or Dump + DumpTable + behaviour on 3 bindings, each through a by-name and a by-key fetcher) equals the result of the same call made first on fresh equal configs, and every program compiled EARLIER in the history still dumps and behaves as it did; each history is also replayed to expose iteration-order nondeterminism. (1b) edit histories: Compile, then the caller edits that config (every single mutation + same-length edits of the stateless list), then Compile of every probing source: the result equals that of a fresh config with the same edit, and a copy taken before the edit still gives the unedited result. (2) copy histories: every chain of CopyConfig / NewConfig(ExtendConf) up to depth 3 followed by every single mutation (insert/overwrite/delete in each of the 5 maps, overwrite/append on the stateless list) of either side: the other side is unchanged. (3) every interleaving of 2 and 3 concurrent Compile calls on one shared config whose folding invokes the harness's stateless operator (scheduling point), plus a free-running race-detector pass (Compile + CopyConfig + ExtendConf on one config). non-trivial = histories in which a directive-bearing or failing compilation precedes another compilation"
	r.Assume = []string{"Config equality is equality of the exported fields (maps by content, operators by function identity)",
		"scheduling points inside Compile exist only where it calls back into the environment (stateless operator during folding); the rest is covered by the race pass"}

	// isolated results: each (config, source) compiled first on fresh configs
	// IN A FRESH PROCESS (state that Compile might keep at package level
	// cannot be reset from inside, so an in-process baseline would inherit it)
	nC := c8nC
	iso := make([][]string, nC)
	for ci := 0; ci < nC; ci++ {
		iso[ci] = make([]string, len(c8Sources))
	}
	type isoJob struct{ ci, si int }
	var isoJobs []isoJob
	for ci := 0; ci < nC; ci++ {
		for si := range c8Sources {
			isoJobs = append(isoJobs, isoJob{ci, si})
		}
	}
	isoFailed := int64(0)
	r.ParallelFor(len(isoJobs), func(w, j int) {
		ci, si := isoJobs[j].ci, isoJobs[j].si
		out, err := exec.Command(os.Args[0], "c08iso", fmt.Sprint(ci), fmt.Sprint(si)).Output()
		if err != nil {
			atomic.AddInt64(&isoFailed, 1)
			// fall back to the in-process baseline
			cfgs := c8Configs(&c8env{})
			e, cerr := c8Compile(cfgs[ci], c8Sources[si])
			iso[ci][si] = c8Result(e, cerr)
			return
		}
		iso[ci][si] = string(out)
	})
	r.Cov["isolated_baselines_from_fresh_processes"] = int64(len(isoJobs)) - isoFailed
	distinct := map[string]bool{}
	for _, row := range iso {
		for _, s := range row {
			distinct[s] = true
		}
	}
	r.Cov["distinct_isolated_results"] = len(distinct)

	// (1) compile histories
	alpha := nC * len(c8Sources)
	var histories, steps, nontrivial int64
	first := make([]int, alpha)
	for i := range first {
		first[i] = i
	}
	// two passes: every history up to depth 3 first (always completed), then,
	// in the thorough tier, the depth-4 histories alone (as far as the budget goes)
	passes := [][2]int{{1, 3}}
	if depth > 3 {
		passes = append(passes, [2]int{depth, depth})
	}
	for _, pass := range passes {
		minLen, maxLen := pass[0], pass[1]
		r.ParallelFor(alpha, func(w, f0 int) {
			hist := make([]int, maxLen)
			hist[0] = f0
			var rec func(k int)
			runHist := func(k int) {
				for rep := 0; rep < 2; rep++ { // second pass: same history again on fresh objects (map-order nondeterminism)
					en := &c8env{}
					cfgs := c8Configs(en)
					snaps := make([]string, nC)
					for i, c := range cfgs {
						snaps[i] = c8Snapshot(c)
					}
					type earlier struct {
						e   *eval.Expr
						res string
					}
					var kept []earlier
					for s := 0; s < k; s++ {
						ci, si := hist[s]/len(c8Sources), hist[s]%len(c8Sources)
						e, err := c8Compile(cfgs[ci], c8Sources[si])
						got := c8Result(e, err)
						atomic.AddInt64(&steps, 1)
						// programs compiled earlier in this history are finished objects:
						// a later compilation must not change what they are or do
						for pk, pe := range kept {
							if now := c8Result(pe.e, nil); now != pe.res {
								var h []string
								for _, x := range hist[:s+1] {
									h = append(h, sprintf("Compile(config%c, %q)", 'A'+x/len(c8Sources), c8Sources[x%len(c8Sources)]))
								}
								r.Violate("earlier-program-changed", sprintf("%d/%d", hist[pk], hist[s]), sprintf("the program compiled at step %d changed when step %d compiled another source", pk+1, s+1), map[string]interface{}{"history": h, "before": pe.res, "after": now})
								kept[pk].res = now
							}
						}
						if err == nil && e != nil {
							kept = append(kept, earlier{e, got})
						}
						d := func() map[string]interface{} {
							var h []string
							for _, x := range hist[:s+1] {
								h = append(h, sprintf("Compile(config%c, %q)", 'A'+x/len(c8Sources), c8Sources[x%len(c8Sources)]))
							}
							return map[string]interface{}{"history": h}
						}
						if got != iso[ci][si] {
							m := d()
							m["got"], m["isolated"] = got, iso[ci][si]
							r.Violate("history-result", sprintf("%d/%d", ci, si), sprintf("Compile(config%c, %q) yields a different program after earlier compilations than when made first", 'A'+ci, c8Sources[si]), m)
						}
						for i, c := range cfgs {
							if now := c8Snapshot(c); now != snaps[i] {
								m := d()
								m["before"], m["after"] = snaps[i], now
								r.Violate("config-modified", sprintf("%d/%d/%d", ci, si, i), sprintf("Compile(config%c, %q) modified caller config %c", 'A'+ci, c8Sources[si], 'A'+i), m)
								snaps[i] = now
							}
						}
					}
				}
				if atomic.AddInt64(&histories, 1)%64 == 0 {
					r.Tick()
				}
				if k >= 2 {
					si := hist[0] % len(c8Sources)
					if strings.HasPrefix(c8Sources[si], ";") || strings.HasPrefix(iso[hist[0]/len(c8Sources)][si], "error") {
						atomic.AddInt64(&nontrivial, 1)
					}
				}
			}
			rec = func(k int) {
				if minLen > 3 && k >= 3 && r.Expired() {
					r.Capped("C08: the depth-4 compile histories reached the time budget (every history up to depth 3 was completed before)")
					return
				}
				if k >= minLen {
					runHist(k)
				}
				if k == maxLen {
					return
				}
				for c := 0; c < alpha; c++ {
					// the last step of a depth-3+ history is one of the probing
					// sources (those whose result depends on what could have leaked)
					if k >= 2 && !c8Probe[c%len(c8Sources)] {
						continue
					}
					hist[k] = c
					rec(k + 1)
				}
			}
			r.Note(w, sprintf("histories starting with %d", f0))
			rec(1)
		})
	}
	r.Cov["compile_histories"] = histories
	r.Cov["history_depth"] = depth
	r.Sample(3, map[string]interface{}{"history": []string{"Compile(configA, " + c8Sources[1] + ")", "Compile(configB, " + c8Sources[0] + ")", "Compile(configA, " + c8Sources[0] + ")"}})

	// (1b) the caller EDITS a config between two compilations
	edits := c08Edits(r, iso)

	// (2) copy histories
	copies := c08Copies(r) + edits

	// (3) schedules
	schedules, points := c08Schedules(r, iso)
	r.Cov["schedules_explored"] = schedules
	r.Add(histories+copies+schedules, steps+points+copies, steps+schedules+copies, steps+schedules+copies, nontrivial)

	r.External(func() { c08Race(r) })
	r.Finish()
}

// C08IsoMain: `check c08iso <config> <source>` — one Compile in this (fresh)
// process, result printed on stdout.
func C08IsoMain(args []string) {
	var ci, si int
	fmt.Sscan(args[0], &ci)
	fmt.Sscan(args[1], &si)
	cfgs := c8Configs(&c8env{})
	e, err := c8Compile(cfgs[ci], c8Sources[si])
	fmt.Print(c8Result(e, err))
}

// c08Edits: Compile(config, s1); the caller edits that config (every single
// mutation, plus same-length edits of the stateless list); Compile(config, s2)
// for every probing source s2: the result is what a FRESH config with the same
// edit gives, and a copy taken before the edit still gives the unedited result.
func c08Edits(r *rep.Run, iso [][]string) int64 {
	muts := c8Mutations()
	repl := func(from, to string) func(c *eval.Config) {
		return func(c *eval.Config) {
			for i, n := range c.StatelessOperators {
				if n == from {
					c.StatelessOperators[i] = to
				}
			}
		}
	}
	muts = append(muts,
		c8mut{"Stateless replace f by g2 in place", repl("f", "g2")},
		c8mut{"Stateless replace f by f0 in place", repl("f", "f0")},
		c8mut{"Stateless new list of the same length", func(c *eval.Config) {
			n := make([]string, len(c.StatelessOperators))
			for i := range n {
				n[i] = []string{"g2", "f0", "tup", "nosuch"}[i%4]
			}
			c.StatelessOperators = n
		}},
		c8mut{"Stateless set to nil", func(c *eval.Config) { c.StatelessOperators = nil }},
		c8mut{"Stateless declare g2 and f", func(c *eval.Config) { c.StatelessOperators = []string{"g2", "f"} }})
	var probes []int
	for si := range c8Sources {
		if c8Probe[si] {
			probes = append(probes, si)
		}
	}
	var n int64
	type job struct{ ci, s1 int }
	var jobs []job
	for ci := 0; ci < 3; ci++ {
		for s1 := range c8Sources {
			jobs = append(jobs, job{ci, s1})
		}
	}
	r.ParallelFor(len(jobs), func(w, j int) {
		ci, s1 := jobs[j].ci, jobs[j].s1
		r.Note(w, sprintf("edit histories config%c source %d", 'A'+ci, s1))
		for mi, m := range muts {
			for _, s2 := range probes {
				cfgs := c8Configs(&c8env{})
				_, _ = c8Compile(cfgs[ci], c8Sources[s1])
				before := eval.CopyConfig(cfgs[ci])
				m.do(cfgs[ci])
				e, err := c8Compile(cfgs[ci], c8Sources[s2])
				got := c8Result(e, err)
				fresh := c8Configs(&c8env{})
				m.do(fresh[ci])
				fe, ferr := c8Compile(fresh[ci], c8Sources[s2])
				want := c8Result(fe, ferr)
				atomic.AddInt64(&n, 1)
				d := map[string]interface{}{"history": []string{sprintf("Compile(config%c, %q)", 'A'+ci, c8Sources[s1]), "edit: " + m.name, sprintf("Compile(config%c, %q)", 'A'+ci, c8Sources[s2])}}
				if got != want {
					d["got"], d["fresh_config_with_the_same_edit"] = got, want
					r.Violate("edit-result", sprintf("%d/%d/%d", ci, mi, s2), sprintf("after Compile(config%c, ...) and the edit %q, Compile(config%c, %q) differs from what a fresh config with the same edit gives", 'A'+ci, m.name, 'A'+ci, c8Sources[s2]), d)
				}
				ce, cerr := c8Compile(before, c8Sources[s2])
				if cres := c8Result(ce, cerr); cres != iso[ci][s2] {
					d["got"], d["isolated_unedited"] = cres, iso[ci][s2]
					r.Violate("edit-reaches-copy", sprintf("%d/%d/%d", ci, mi, s2), sprintf("a copy of config%c taken BEFORE the edit %q compiles %q differently from the unedited config", 'A'+ci, m.name, c8Sources[s2]), d)
				}
			}
		}
	})
	r.Cov["edit_histories"] = n
	return n
}

// ---- copy independence ----

type c8mut struct {
	name string
	do   func(c *eval.Config)
}

func c8Mutations() []c8mut {
	op := func(*eval.Ctx, []eval.Value) (eval.Value, error) { return int64(1), nil }
	return []c8mut{
		{"ConstantMap insert", func(c *eval.Config) { c.ConstantMap["NEW"] = int64(9) }},
		{"ConstantMap overwrite", func(c *eval.Config) { c.ConstantMap["K1"] = "changed" }},
		{"ConstantMap delete", func(c *eval.Config) { delete(c.ConstantMap, "K1") }},
		{"OperatorMap insert", func(c *eval.Config) { c.OperatorMap["newop"] = op }},
		{"OperatorMap overwrite", func(c *eval.Config) { c.OperatorMap["f"] = op }},
		{"OperatorMap delete", func(c *eval.Config) { delete(c.OperatorMap, "f") }},
		{"VariableKeyMap insert", func(c *eval.Config) { c.VariableKeyMap["z"] = 77 }},
		{"VariableKeyMap overwrite", func(c *eval.Config) { c.VariableKeyMap["x"] = 42 }},
		{"VariableKeyMap delete", func(c *eval.Config) { delete(c.VariableKeyMap, "x") }},
		{"VariableKeyMap GetOrRegisterKey", func(c *eval.Config) { eval.GetOrRegisterKey(c, "fresh") }},
		{"CostsMap insert", func(c *eval.Config) { c.CostsMap["y"] = 1 }},
		{"CostsMap overwrite", func(c *eval.Config) { c.CostsMap["x"] = -1 }},
		{"CostsMap delete", func(c *eval.Config) { delete(c.CostsMap, "x") }},
		{"CompileOptions insert", func(c *eval.Config) { c.CompileOptions[eval.Debug] = true }},
		{"CompileOptions overwrite", func(c *eval.Config) {
			c.CompileOptions[eval.Reordering] = true
			c.CompileOptions[eval.ReportEvent] = false
		}},
		{"CompileOptions delete", func(c *eval.Config) {
			delete(c.CompileOptions, eval.Reordering)
			delete(c.CompileOptions, eval.ReportEvent)
		}},
		{"Stateless overwrite element", func(c *eval.Config) {
			if len(c.StatelessOperators) > 0 {
				c.StatelessOperators[0] = "zzz"
			}
		}},
		{"Stateless append", func(c *eval.Config) { c.StatelessOperators = append(c.StatelessOperators, "appended") }},
		{"Stateless append twice", func(c *eval.Config) {
			c.StatelessOperators = append(c.StatelessOperators, "a1")
			c.StatelessOperators = append(c.StatelessOperators, "a2")
		}},
		{"RegisterOperator", func(c *eval.Config) { _ = eval.RegisterOperator(c, "registered", op) }},
	}
}

func c08Copies(r *rep.Run) int64 {
	muts := c8Mutations()
	copiers := []struct {
		name string
		do   func(c *eval.Config) *eval.Config
	}{
		{"CopyConfig", func(c *eval.Config) *eval.Config { return eval.CopyConfig(c) }},
		{"NewConfig(ExtendConf)", func(c *eval.Config) *eval.Config { return eval.NewConfig(eval.ExtendConf(c)) }},
	}
	var n int64
	// chains of copiers up to depth 3
	var chains [][]int
	for d := 1; d <= 3; d++ {
		var rec func(cur []int)
		rec = func(cur []int) {
			if len(cur) == d {
				chains = append(chains, append([]int(nil), cur...))
				return
			}
			for c := range copiers {
				rec(append(cur, c))
			}
		}
		rec(nil)
	}
	for cfgIdx := 0; cfgIdx < 3; cfgIdx++ {
		for _, chain := range chains {
			for mi, m := range muts {
				for side := 0; side < 2; side++ { // 0: mutate the last copy, 1: mutate the origin
					for appendSecond := 0; appendSecond < 2; appendSecond++ {
						en := &c8env{}
						origin := c8Configs(en)[cfgIdx]
						all := []*eval.Config{origin}
						var names []string
						for _, c := range chain {
							all = append(all, copiers[c].do(all[len(all)-1]))
							names = append(names, copiers[c].name)
						}
						// equal contents first
						want := c8Snapshot(origin)
						for i, c := range all {
							if s := c8Snapshot(c); s != want {
								r.Violate("copy-differs", names[0], sprintf("config%c: copy #%d via %v does not have the contents of its source", 'A'+cfgIdx, i, names), map[string]interface{}{"source": want, "copy": s})
							}
						}
						target := all[len(all)-1]
						if side == 1 {
							target = origin
						}
						m.do(target)
						if appendSecond == 1 {
							// an append on another config afterwards must not clobber the first append
							other := origin
							if side == 1 {
								other = all[len(all)-1]
							}
							other.StatelessOperators = append(other.StatelessOperators, "other-append")
							if s := strings.Join(target.StatelessOperators, ","); strings.Contains(s, "other-append") {
								r.Violate("copy-shares-state", "append-clobber", sprintf("config%c: appending to one config's stateless list overwrote an element appended to its copy (%v)", 'A'+cfgIdx, names), map[string]interface{}{"chain": names, "mutation": m.name})
							}
							other.StatelessOperators = other.StatelessOperators[:len(other.StatelessOperators)-1]
						}
						n++
						for i, c := range all {
							if c == target {
								continue
							}
							if s := c8Snapshot(c); s != want {
								r.Violate("copy-shares-state", sprintf("%d", mi), sprintf("config%c: %q on one config changed another one linked to it by %v", 'A'+cfgIdx, m.name, names),
									map[string]interface{}{"chain": names, "mutation": m.name, "mutated": map[bool]string{true: "origin", false: "last copy"}[side == 1], "changed_config_index": i, "before": want, "after": s})
							}
						}
					}
				}
			}
		}
	}
	// nil origin: every copy of nil is a usable empty config, independent of every other one
	if c := eval.CopyConfig(nil); c == nil || c.ConstantMap == nil {
		r.Violate("copy-nil", "nil", "CopyConfig(nil) does not return a usable empty config", nil)
	} else {
		empty := c8Snapshot(eval.NewConfig())
		for mi, m := range muts {
			a, b := eval.CopyConfig(nil), eval.CopyConfig(nil)
			if s := c8Snapshot(a); s != empty {
				r.Violate("copy-nil", sprintf("fresh%d", mi), "CopyConfig(nil) is not an empty default config (after an earlier copy of nil was modified)", map[string]interface{}{"got": s, "want": empty})
			}
			m.do(a)
			if s := c8Snapshot(b); s != empty {
				r.Violate("copy-shares-state", sprintf("nil%d", mi), sprintf("%q on one CopyConfig(nil) result changed another one", m.name), map[string]interface{}{"mutation": m.name, "after": s})
			}
			n++
		}
	}
	r.Cov["copy_histories"] = n
	r.Sample(6, map[string]interface{}{"copy_history": []string{"CopyConfig", "NewConfig(ExtendConf)", "Stateless overwrite element on the last copy"}})
	return n
}

// ---- concurrent Compile on one shared config ----

func c08Schedules(r *rep.Run, iso [][]string) (int64, int64) {
	bound3 := 2
	if r.Thorough() {
		bound3 = 4
	}
	r.Cov["preemption_bound_3_threads"] = bound3
	r.Cov["preemption_bound_2_threads"] = "unbounded"
	// sources whose compilation calls the stateless operator f (points inside Compile)
	pick := []int{0, 3, 4, 5, 10, 1}
	type job struct {
		ci  int
		src []int
	}
	var jobs []job
	for _, ci := range []int{0, 2} { // configs in which f is declared stateless
		for _, a := range pick {
			for _, b := range pick {
				jobs = append(jobs, job{ci, []int{a, b}})
			}
		}
		for _, a := range pick[:4] {
			for _, b := range pick[:4] {
				for _, c := range pick[:4] {
					if a <= b && b <= c {
						jobs = append(jobs, job{ci, []int{a, b, c}})
					}
				}
			}
		}
	}
	var schedules, points int64
	var mu sync.Mutex
	r.ParallelFor(len(jobs), func(w, j int) {
		jb := jobs[j]
		r.Note(w, sprintf("concurrent Compile config%c %v", 'A'+jb.ci, jb.src))
		var cfg *eval.Config
		var snap string
		var results []string
		var cur *sched.Sched
		run := func(prefix []int) *sched.Sched {
			en := &c8env{}
			cfg = c8Configs(en)[jb.ci]
			snap = c8Snapshot(cfg)
			results = make([]string, len(jb.src))
			en.point = func(l string) { cur.Point(l) }
			bodies := make([]sched.Body, len(jb.src))
			for t := range jb.src {
				t := t
				bodies[t].Run = func() {
					cur.Point("call")
					e, err := c8Compile(cfg, c8Sources[jb.src[t]])
					cur.Point("return")
					en2 := en.point
					en.point = nil // evaluating the result is not part of the schedule
					results[t] = c8Result(e, err)
					en.point = en2
				}
			}
			return sched.RunWith(bodies, prefix, nil, func(s *sched.Sched) { cur = s })
		}
		bound := -1 // two threads: every interleaving
		if len(jb.src) > 2 {
			bound = bound3
		}
		nsched := 0
		st := sched.Explore(bound, 200000, run, func(s *sched.Sched) bool {
			if nsched++; nsched%256 == 0 {
				r.Note(w, sprintf("concurrent Compile config%c %v schedule #%d", 'A'+jb.ci, jb.src, nsched))
			}
			d := func() map[string]interface{} {
				var srcs []string
				for _, x := range jb.src {
					srcs = append(srcs, c8Sources[x])
				}
				return map[string]interface{}{"config": string(rune('A' + jb.ci)), "threads": srcs, "schedule": s.Choices()}
			}
			if s.Diverged != "" || s.Deadlock {
				r.Violate("schedule-nondeterminism", "c08", "schedule replay diverged or deadlocked: "+s.Diverged, d())
				return false
			}
			for t := range jb.src {
				if results[t] != iso[jb.ci][jb.src[t]] {
					m := d()
					m["got"], m["isolated"], m["thread"] = results[t], iso[jb.ci][jb.src[t]], t
					r.Violate("schedule-result", sprintf("%d/%d", jb.ci, jb.src[t]), sprintf("concurrent Compile of %q yields a different program than in isolation", c8Sources[jb.src[t]]), m)
				}
			}
			if now := c8Snapshot(cfg); now != snap {
				m := d()
				m["before"], m["after"] = snap, now
				r.Violate("schedule-config-modified", sprintf("%d", jb.ci), "concurrent Compile calls modified the shared caller config", m)
			}
			for _, p := range s.Panics() {
				if p != nil {
					r.Violate("schedule-panic", "c08", sprintf("panic in concurrent Compile: %v", p), d())
				}
			}
			return true
		})
		mu.Lock()
		schedules += int64(st.Schedules)
		points += int64(st.Points)
		if !st.Exhaustive {
			r.Capped("a C08 schedule exploration hit its execution cap")
		}
		mu.Unlock()
	})
	r.Sample(8, map[string]interface{}{"concurrent": []string{c8Sources[0], c8Sources[3]}, "config": "A", "note": "all interleavings at the stateless-operator callbacks"})
	return schedules, points
}

func c08Race(r *rep.Run) {
	bin := filepath.Join(rep.Root, ".bin", sprintf("racepass8.%d", os.Getpid()))
	defer os.Remove(bin)
	args := []string{"build", "-race"}
	if mf := os.Getenv("VERIF_MODFILE"); mf != "" {
		args = append(args, "-modfile="+mf)
	}
	build := exec.Command("go", append(args, "-o", bin, "./cmd/racepass")...)
	build.Dir = filepath.Join(rep.Root, "mc")
	build.Env = append(os.Environ(), "CGO_ENABLED=1", "GOFLAGS=-mod=mod", "GOPROXY=off", "GOSUMDB=off", "GOTOOLCHAIN=local")
	if out, err := build.CombinedOutput(); err != nil {
		r.Cov["race_pass"] = "not run: race-instrumented build failed: " + firstLines(string(out), 3)
		return
	}
	iters := "200"
	if r.Thorough() {
		iters = "2000"
	}
	limit := 15 * time.Minute
	if r.Thorough() {
		limit = 90 * time.Minute
	}
	cctx, cancel := context.WithTimeout(context.Background(), limit)
	defer cancel()
	cmd := exec.CommandContext(cctx, bin, "C08", iters)
	cmd.Env = append(os.Environ(), "GORACE=halt_on_error=0 exitcode=66")
	out, err := cmd.CombinedOutput()
	text := string(out)
	if cctx.Err() != nil {
		r.Violate("race-pass-timeout", "racepass", sprintf("the free-running concurrent harness did not finish within %v: concurrent calls block each other", limit), map[string]interface{}{"output": firstLines(text, 40)})
		return
	}
	if strings.Contains(text, "WARNING: DATA RACE") {
		r.Violate("data-race", firstRaceSite(text), "the Go race detector reports a data race between concurrent Compile/CopyConfig calls on one shared Config", map[string]interface{}{"report": firstLines(text, 60)})
		r.Cov["race_pass"] = "DATA RACE reported"
		return
	}
	if err != nil {
		r.Violate("race-pass-failed", "racepass", "the free-running concurrent harness failed: "+firstLines(text, 10), map[string]interface{}{"output": firstLines(text, 60)})
		return
	}
	r.Cov["race_pass"] = strings.TrimSpace(lastLine(text))
}

// C08FreeRun: concurrent Compile (all sources) + CopyConfig + ExtendConf on
// one shared config per config kind, free-running.
func C08FreeRun(iters int) (string, error) {
	nC := c8nC
	iso := make([][]string, nC)
	for ci := 0; ci < nC; ci++ {
		iso[ci] = make([]string, len(c8Sources))
		for si, src := range c8Sources {
			cfgs := c8Configs(&c8env{})
			e, err := c8Compile(cfgs[ci], src)
			iso[ci][si] = c8Result(e, err)
		}
	}
	calls := 0
	for ci := 0; ci < nC; ci++ {
		cfg := c8Configs(&c8env{})[ci]
		snap := c8Snapshot(cfg)
		var wg sync.WaitGroup
		errs := make(chan error, 64)
		for si := range c8Sources {
			si := si
			wg.Add(1)
			go func() {
				defer wg.Done()
				for k := 0; k < iters; k++ {
					e, err := c8Compile(cfg, c8Sources[si])
					if got := c8Result(e, err); got != iso[ci][si] {
						errs <- fmt.Errorf("concurrent Compile(config%c,%q) = %s, isolated %s", 'A'+ci, c8Sources[si], got, iso[ci][si])
						return
					}
				}
			}()
			calls += iters
		}
		for g := 0; g < 2; g++ {
			g := g
			wg.Add(1)
			go func() {
				defer wg.Done()
				for k := 0; k < iters; k++ {
					var c *eval.Config
					if g == 0 {
						c = eval.CopyConfig(cfg)
					} else {
						c = eval.NewConfig(eval.ExtendConf(cfg))
					}
					c.StatelessOperators = append(c.StatelessOperators, "mine")
					c.CompileOptions[eval.Debug] = true
					c.VariableKeyMap["mine"] = 9
				}
			}()
		}
		wg.Wait()
		select {
		case err := <-errs:
			return "", err
		default:
		}
		if now := c8Snapshot(cfg); now != snap {
			return "", fmt.Errorf("config%c modified by concurrent calls:\n%s\n---\n%s", 'A'+ci, snap, now)
		}
	}
	return fmt.Sprintf("race pass: %d concurrent Compile calls + copies over %d shared configs, no race reported, all results equal to isolated ones", calls, nC), nil
}
