package props

import (
	"strings"
	"sync/atomic"

	eval "github.com/onheap/eval"

	"verifmc/drive"
	"verifmc/rep"
	"verifmc/sx"
	"verifmc/term"
)

func init() { Registry["C14"] = c14 }

var c14Seps = []string{"", " ", "\n", "\t ", " ", " ", ";c\n", ";; (x) \"\n"}

// further Unicode spaces, each tried in every gap of every source (alone and
// together with one other non-default gap)
var c14Exotic = []string{";a\rb c\n", ";é\n", ";; 成年人的下限\n", ";;😀😀 x\n", " ;ü\n ", "\v", "\f", "\r", "\r\n", "\t", "", " ", " ", " ", " ", " ", "　", " \t\n\v\f\r "}

func c14Alphabet() *term.Alphabet {
	S, SL := term.TS, term.TSL
	return &term.Alphabet{
		Leaves: map[term.Ty][]*term.Term{
			B:  {term.Var("b", B), term.Const(true)},
			S:  {term.Var("s", S), term.Const("a  b"), term.Const("a(b"), term.Const(";x"), term.Const("[,]\n "), term.Const("c\r\nd\r"), term.Const("x \ny\t\nz \n")},
			SL: {term.Const([]string{"p  q", ")"}), term.Const([]string{})},
		},
		Ops: []term.OpSig{
			sig("and", B, B, B), sig("or", B, B, B, B), sig("not", B, B),
			sig("=", B, S, S), sig("in", B, S, SL), sig("eq", B, S, S),
			{Name: "if", Args: []term.Ty{B, B, B}, Ret: B, If: true},
		},
	}
}

// isBoundary: a token next to which whitespace may be dropped altogether.
func isBoundary(tok string) bool {
	return tok == "(" || tok == ")" || tok == "[" || tok == "]" || tok == ","
}

func tokTexts(src string) ([]string, bool) {
	toks, err := sx.Tokens(src)
	if err != nil {
		return nil, false
	}
	out := make([]string, len(toks))
	for i, t := range toks {
		if t.Kind == 's' {
			out[i] = `"` + t.Text + `"`
		} else {
			out[i] = t.Text
		}
	}
	return out, true
}

func layout(toks []string, seps []int) string {
	var sb strings.Builder
	for i := 0; i <= len(toks); i++ {
		sep := c14Seps[seps[i]]
		if sep == "" && i > 0 && i < len(toks) && !isBoundary(toks[i-1]) && !isBoundary(toks[i]) &&
			!(strings.HasSuffix(toks[i-1], `"`) && len(toks[i-1]) >= 2 && strings.HasPrefix(toks[i], `"`)) {
			// (a closing quote ends its token, so a literal may directly follow a literal)
			sep = " "
		}
		sb.WriteString(sep)
		if i < len(toks) {
			sb.WriteString(toks[i])
		}
	}
	return sb.String()
}

func layoutStr(toks []string, seps []string) string {
	var sb strings.Builder
	for i := 0; i <= len(toks); i++ {
		sb.WriteString(seps[i])
		if i < len(toks) {
			sb.WriteString(toks[i])
		}
	}
	return sb.String()
}

type c14worker struct {
	h   *drive.Harness
	cfg [2]*eval.Config // prefix, infix
}

func c14vars() []term.VarDecl {
	return []term.VarDecl{{Name: "b", Ty: B}, {Name: "s", Ty: term.TS}, {Name: "b0", Ty: B}, {Name: "b1", Ty: B}, {Name: "b2", Ty: B}, {Name: "s0", Ty: term.TS}, {Name: "s1", Ty: term.TS}, {Name: "s2", Ty: term.TS}, {Name: "s3", Ty: term.TS}}
}

// c14Sig: canonical description of what a source compiles to.
func c14Sig(w *c14worker, infix bool, src string) string {
	o := drive.Opt{CF: true, RN: true, FE: true, RO: true, Infix: infix}
	cfg := w.h.NewConfig(nil, o)
	for i, v := range []string{"b", "s", "b0", "b1", "b2", "b3", "s0", "s1", "s2", "s3"} {
		cfg.VariableKeyMap[v] = eval.VariableKey(i + 1)
	}
	// optimisation options are left unset so that directives decide
	for _, k := range []eval.CompileOption{eval.ConstantFolding, eval.ReduceNesting, eval.FastEvaluation, eval.Reordering} {
		delete(cfg.CompileOptions, k)
	}
	e, err := w.h.Compile(cfg, src, 0)
	if err != nil {
		if pe, ok := err.(*drive.PanicErr); ok {
			return "PANIC " + pe.Error()
		}
		return "error"
	}
	var s string
	drive.Fence(func() { s = eval.Dump(e) + "\n" + eval.DumpTable(e, false) })
	return s
}

func c14(r *rep.Run) {
	maxNodes, allGaps, devs, fmtLen := 4, 4, 2, 5
	r.SetBudget(300e9)
	if r.Thorough() {
		maxNodes, allGaps, devs, fmtLen = 5, 5, 3, 6
		r.SetBudget(1800e9)
	}
	r.Rule = "corpus = every tree up to the node bound over {and or not = in if; variables; string literals containing runs of blanks, parens, semicolon, brackets, comma, line break; list literals}, in prefix and in infix notation. For each source EVERY assignment of a separator from {nothing (only next to a paren/bracket/comma or between two string literals), blank, line break, tab+blank, U+00A0, U+2028, a comment line, a comment line containing parens and a quote} to EVERY gap (incl. leading/trailing) when the source has few gaps, otherwise every assignment with at most `devs` non-default gaps (deviation bound); 13 further Unicode spaces (VT, FF, CR, CRLF, TAB, NEL, U+1680, U+2003, U+2029, U+202F, U+205F, U+3000, a mixed run) each in every gap alone and next to one other non-default gap; directive comments before the first token must be honoured, after it ignored (even malformed). Oracle: Dump+DumpTable of the re-laid-out source equal the original's. Formatter: IndentByParentheses applied 1..3 times to every layout sample and to every lexable character string up to the length bound over 17 characters: the independent tokenizer's token+comment sequence is unchanged and Compile gives the same program/error. non-trivial = layouts containing a comment or a non-ASCII space"
	r.Assume = []string{"'between tokens' is taken conservatively: whitespace is only removed next to a paren, bracket or comma", "the independent tokenizer (mc/sx) implements the documented token rules"}
	r.Cov["bounds"] = map[string]int{"max_nodes": maxNodes, "all_assignments_up_to_gaps": allGaps + 1, "deviation_bound": devs, "formatter_char_string_len": fmtLen}
	trees := Programs(c14Alphabet(), []term.Ty{B}, maxNodes)
	type srcItem struct {
		toks  []string
		infix bool
		src   string
	}
	var items []srcItem
	for _, p := range trees {
		if t, ok := tokTexts(p.Src); ok {
			items = append(items, srcItem{t, false, p.Src})
		}
		is := Infix(p.T, 0)
		if t, ok := tokTexts(is); ok {
			items = append(items, srcItem{t, true, is})
		}
	}
	r.Cov["sources"] = len(items)
	ws := make([]*c14worker, r.Workers)
	for i := range ws {
		ws[i] = &c14worker{h: drive.NewHarness()}
	}
	var layouts, nontrivial, formatted int64
	checkFormatter := func(w *c14worker, infix bool, src string, want string) {
		cur := src
		inToks, terr := sx.Tokens(src)
		if terr != nil {
			return
		}
		for k := 1; k <= 3; k++ {
			var out string
			if p, site := drive.Fence(func() { out = eval.IndentByParentheses(cur) }); p != nil {
				r.Violate("formatter-panic", site, sprintf("IndentByParentheses panics: %v", p), map[string]interface{}{"input": cur})
				return
			}
			atomic.AddInt64(&formatted, 1)
			outToks, err := sx.Tokens(out)
			if err != nil || !sameTokens(inToks, outToks) {
				r.Violate("formatter-tokens", src, sprintf("IndentByParentheses (application %d) changes the token/comment sequence", k), map[string]interface{}{"input": cur, "output": out, "infix": infix})
				return
			}
			if got := c14Sig(w, infix, out); got != want {
				r.Violate("formatter-meaning", src, sprintf("the formatted text (application %d) compiles to a different program", k), map[string]interface{}{"input": cur, "output": out, "infix": infix, "got": got, "want": want})
				return
			}
			cur = out
		}
	}
	r.ParallelFor(len(items), func(wi, i int) {
		it := items[i]
		w := ws[wi]
		r.Note(wi, it.src)
		want := c14Sig(w, it.infix, it.src)
		if strings.HasPrefix(want, "error") || strings.HasPrefix(want, "PANIC") {
			r.Violate("corpus", it.src, "corpus source does not compile: "+want, map[string]interface{}{"source": it.src, "infix": it.infix})
			return
		}
		g := len(it.toks) + 1
		seps := make([]int, g)
		nS := len(c14Seps)
		try := func() {
			src := layout(it.toks, seps)
			atomic.AddInt64(&layouts, 1)
			nt := false
			for _, s := range seps {
				if s >= 4 {
					nt = true
				}
			}
			if nt {
				atomic.AddInt64(&nontrivial, 1)
			}
			if got := c14Sig(w, it.infix, src); got != want {
				r.Violate("layout-changes-program", it.src, "re-laying out the source (whitespace/comments between tokens) changes the compiled program", map[string]interface{}{"original": it.src, "relayout": src, "infix": it.infix, "got": got, "want": want})
			}
		}
		if g <= allGaps+1 {
			var rec func(k int)
			rec = func(k int) {
				if k == g {
					try()
					return
				}
				for s := 0; s < nS; s++ {
					seps[k] = s
					rec(k + 1)
				}
			}
			rec(0)
		} else {
			// default separator: blank (index 1); every assignment with <= devs deviations
			for k := range seps {
				seps[k] = 1
			}
			var rec func(start, left int)
			rec = func(start, left int) {
				try()
				if left == 0 {
					return
				}
				for k := start; k < g; k++ {
					for s := 0; s < nS; s++ {
						if s == 1 {
							continue
						}
						seps[k] = s
						rec(k+1, left-1)
					}
					seps[k] = 1
				}
			}
			rec(0, devs)
		}
		// exotic Unicode spaces: one exotic gap, alone and next to one other non-default gap
		{
			ss := make([]string, g)
			for _, ex := range c14Exotic {
				for k := 0; k < g; k++ {
					for o := -1; o < g; o++ {
						if o == k {
							continue
						}
						if o >= 0 && o != k+1 && o != k-1 && !r.Thorough() {
							continue // quick: the other non-default gap is a neighbour
						}
						for oi := 0; oi < 3; oi++ {
							for x := range ss {
								ss[x] = " "
							}
							ss[k] = ex
							if o >= 0 {
								ss[o] = []string{"\n", ";c\n", " "}[oi]
							} else if oi > 0 {
								continue
							}
							src := layoutStr(it.toks, ss)
							atomic.AddInt64(&layouts, 1)
							atomic.AddInt64(&nontrivial, 1)
							if got := c14Sig(w, it.infix, src); got != want {
								r.Violate("layout-changes-program", it.src+ex, sprintf("a %q between tokens changes the compiled program", ex), map[string]interface{}{"original": it.src, "relayout": src, "infix": it.infix, "got": got, "want": want})
							}
						}
					}
				}
				// and the formatter on a source that uses this space everywhere
				for x := range ss {
					ss[x] = ex
				}
				checkFormatter(w, it.infix, layoutStr(it.toks, ss), want)
			}
		}
		// formatter on a few layouts of this source: default, all-newline, comments everywhere, minimal
		for _, s := range []int{1, 2, 6, 0, 7, 4} {
			for k := range seps {
				seps[k] = s
			}
			checkFormatter(w, it.infix, layout(it.toks, seps), want)
		}
		// mixed layout: cycle through the separators
		for k := range seps {
			seps[k] = (k + i) % nS
		}
		checkFormatter(w, it.infix, layout(it.toks, seps), want)
		if i%97 == 0 {
			r.Sample(8, map[string]interface{}{"source": it.src, "gaps": g, "infix": it.infix})
		}
	})

	// directives: honoured before the first token only
	c14Directives(r, ws[0])

	// formatter on every lexable character string
	var fmtStrings int64
	nC := len(c06Chars)
	for L := 0; L <= fmtLen && !r.Expired(); L++ {
		L := L
		shards := 1
		if L >= 1 {
			shards = nC
		}
		r.ParallelFor(shards, func(wi, s int) {
			w := ws[wi]
			idx := make([]int, L)
			fixed := 0
			if L >= 1 {
				idx[0] = s
				fixed = 1
			}
			buf := make([]rune, L)
			for {
				for k, c := range idx {
					buf[k] = c06Chars[c]
				}
				src := string(buf)
				if _, err := sx.Tokens(src); err == nil {
					atomic.AddInt64(&fmtStrings, 1)
					r.Note(wi, src)
					checkFormatter(w, false, src, c14Sig(w, false, src))
					checkFormatter(w, true, src, c14Sig(w, true, src))
				}
				k := L - 1
				for ; k >= fixed; k-- {
					idx[k]++
					if idx[k] < nC {
						break
					}
					idx[k] = 0
				}
				if k < fixed {
					return
				}
			}
		})
	}
	r.Cov["layouts"] = layouts
	r.Cov["formatter_applications"] = formatted
	r.Cov["formatter_character_strings"] = fmtStrings
	r.Add(layouts+fmtStrings, layouts+formatted, layouts+formatted, layouts+formatted, nontrivial)
	r.Finish()
}

func sameTokens(a, b []sx.Tok) bool {
	if len(a) != len(b) {
		return false
	}
	for i := range a {
		if a[i].Kind != b[i].Kind {
			return false
		}
		x, y := a[i].Text, b[i].Text
		if a[i].Kind == 'c' {
			x, y = strings.TrimSpace(x), strings.TrimSpace(y)
		}
		if x != y {
			return false
		}
	}
	return true
}

func c14Directives(r *rep.Run, w *c14worker) {
	body := "(and (or b0 (= s0 \"a  b\")) (and b1 (not (= 1 1))) b2)"
	plain := c14Sig(w, false, body)
	n := 0
	for b := 0; b < 16; b++ {
		o := drive.FromBits(b)
		for st := 1; st <= drive.NumDirectiveStyles; st++ {
			d := drive.DirectiveText(o, st)
			want := c14Sig(w, false, d+body)
			// the same directive with extra layout in front / between lines
			variants := []string{"\n\n" + d + body, " \t" + strings.ReplaceAll(d, "\n", "\n\n  ") + body, ";plain comment\n" + d + ";another\n" + body}
			// very long header lines (an ordinary comment, a run of blanks, a run
			// of line breaks) ahead of and between the directive lines
			if st <= 2 {
				for _, L := range []int{4095, 4096, 65535, 65536, 65537, 131072, 300000} {
					variants = append(variants, ";"+strings.Repeat("x", L)+"\n"+d+body, strings.Repeat(" ", L)+d+body, strings.Repeat("\n", L)+d+body,
						d+";"+strings.Repeat("y ", L/2)+"\n"+body)
				}
			}
			for _, v := range variants {
				n++
				if got := c14Sig(w, false, v); got != want {
					r.Violate("directive-layout", o.String(), "layout around leading directive comments changes the compiled program", map[string]interface{}{"source": trunc(v, 300), "source_length": len(v), "got": got, "want": want})
				}
			}
			// ordinary header comments that merely CONTAIN the directive marker
			for _, mid := range []string{";; to debug, put this first: ;;;; optimize: false\n", "; x;;;;optimize:false\n", ";; ---- section ;;;; ----\n", ";;; ;;;; reordering:false, constant_folding:false\n", ";; ;;;;bogus:true\n"} {
				n++
				if got := c14Sig(w, false, mid+d+body); got != want {
					r.Violate("directive-layout", "mid"+o.String(), "an ordinary comment that contains the directive marker in its text changes the compiled program", map[string]interface{}{"source": mid + d + body, "got": got, "want": want})
				}
				if b == 15 && st == 1 {
					n++
					if got := c14Sig(w, false, mid+body); got != plain {
						r.Violate("directive-layout", "mid-alone", "an ordinary comment that contains the directive marker in its text is taken for a directive", map[string]interface{}{"source": mid + body, "got": got, "want": plain})
					}
				}
			}
			// after the first token the same text must be ignored
			lines := strings.Split(strings.TrimSpace(d), "\n")
			dirLine := strings.TrimSpace(lines[len(lines)-1])
			for _, after := range []string{"(and " + dirLine + "\n(or b0 (= s0 \"a  b\")) (and b1 (not (= 1 1))) b2)",
				"( " + dirLine + "\nand (or b0 (= s0 \"a  b\")) (and b1 (not (= 1 1))) b2)",
				body + "\n" + dirLine + "\n",
				"(and ;;;;bogus:true\n(or b0 (= s0 \"a  b\")) ;;;; optimize:maybe\n(and b1 (not (= 1 1))) b2) ;;;;\n"} {
				n++
				if got := c14Sig(w, false, after); got != plain {
					r.Violate("directive-after-first-token", dirLine, "a directive comment after the first token is not ignored", map[string]interface{}{"source": after, "got": got, "want": plain})
				}
			}
		}
	}
	// infix notation: the first token may be a glued `!ident`
	for _, ib := range []string{"!b0 && (b1 || b2) && 1 + 1 == 2", "! b0 && (b1 || b2) && 1 + 1 == 2", "b0 && !b1 && (1 + 1 == 2 || b2)", "!in(s0, [\"a(b\"]) || b0 && 1 + 1 == 2", "(b0) && 1 + 1 == 2"} {
		plainI := c14Sig(w, true, ib)
		if strings.HasPrefix(plainI, "error") || strings.HasPrefix(plainI, "PANIC") {
			r.Violate("corpus", ib, "infix corpus source does not compile: "+plainI, nil)
			continue
		}
		toks := strings.Fields(ib)
		for _, dir := range []string{";;;; optimize:false", ";;;;optimize:false", ";;;; constant_folding:false, reordering:false", ";;;;bogus:true", ";;;; optimize:maybe"} {
			for pos := 1; pos <= len(toks); pos++ {
				src := strings.Join(toks[:pos], " ") + " " + dir + "\n" + strings.Join(toks[pos:], " ")
				n++
				if got := c14Sig(w, true, src); got != plainI {
					r.Violate("directive-after-first-token", "infix"+dir, "a directive comment after the first token of an infix expression is not ignored", map[string]interface{}{"source": src, "got": got, "want": plainI})
				}
				// glued to the previous token (a comment starts at the semicolon)
				src = strings.Join(toks[:pos], " ") + dir + "\n" + strings.Join(toks[pos:], " ")
				n++
				if got := c14Sig(w, true, src); got != plainI {
					r.Violate("directive-after-first-token", "infix-glued"+dir, "a directive comment glued to a token of an infix expression is not ignored", map[string]interface{}{"source": src, "got": got, "want": plainI})
				}
			}
			// before the first token the valid ones are honoured: must equal the prefix-notation rule (same options)
		}
		want := c14Sig(w, true, ";;;; optimize:false\n"+ib)
		if want == plainI {
			r.Violate("directive-not-honoured", "infix", "a leading directive has no effect in infix notation", map[string]interface{}{"source": ib})
		}
	}
	r.Cov["directive_layouts"] = n
	r.Add(int64(n), int64(n), int64(n), int64(n), int64(n))
	r.Sample(10, map[string]interface{}{"directive_layout": ";plain comment\n;;;; reordering:false\n;another\n" + body})
}

var _ = term.TB
