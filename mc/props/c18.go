package props

import (
	"fmt"
	"math"
	"sort"
	"strings"
	"sync/atomic"

	"verifmc/drive"
	"verifmc/ref"
	"verifmc/rep"
	"verifmc/term"
)

func init() { Registry["C18"] = c18 }

var c18Scalar = map[string]bool{"add": true, "sub": true, "mul": true, "div": true, "mod": true, "and": true, "or": true, "xor": true, "not": true,
	"eq": true, "ne": true, "gt": true, "lt": true, "ge": true, "le": true, "between": true}

const c18Known = "C18-andor-shortcut"

// lazyShortcut: can a short-circuit jump that bypasses the and/or operator
// yield b for these operands? It yields the first deciding boolean in
// evaluation order, else the last evaluated operand if that is a boolean;
// Reordering may permute the evaluation order, so: if some operand is a
// deciding boolean the result is that deciding value, otherwise it is one of
// the boolean operands.
func lazyShortcut(name string, ops []interface{}, b bool) bool {
	and := term.IsAnd(name)
	anyBool, deciding := false, false
	for _, o := range ops {
		if v, ok := o.(bool); ok {
			anyBool = true
			if v != and {
				deciding = true
			}
		}
	}
	if deciding {
		return b != and
	}
	return anyBool && b == and
}

func c18(r *rep.Run) {
	r.SetBudget(300e9)
	if r.Thorough() {
		r.SetBudget(1800e9)
	}
	ints := []int64{math.MinInt64, math.MinInt64 + 1, -2, -1, 0, 1, 2, math.MaxInt64 - 1, math.MaxInt64}
	if r.Thorough() {
		ints = append(ints, 3, -3, 1<<31, -(1 << 31), 1<<32+1, 10000)
	}
	var vals []interface{}
	for _, v := range ints {
		vals = append(vals, v)
	}
	vals = append(vals, true, false)
	nScalar := len(vals)
	vals = append(vals, "a", []int64{1})
	r.Rule = "every scalar operator and every alias (33 names) x every operand count 0..4 x EVERY operand tuple over {min, min+1, -2, -1, 0, 1, 2, max-1, max, true, false, \"a\", (1)} (count 4: int/bool values only), operands written as literals, bound through variables, and mixed (first / last operand a variable, the rest literals), optimisations off and default. Oracle R4: wrapping left fold for arithmetic (min/-1 = min, min%-1 = 0), a zero divisor anywhere after the first operand is an error, comparisons and between against int64 order, n-ary eq = all equal, ne = not eq, le = not gt, ge = not lt, boolean folds, wrong counts and wrong types are errors; every alias gives exactly the outcome of its named form on every tuple. Plus, per name and arity 1..3, every tuple over look-alike values (1/\"1\", true/\"true\", 0/\"0\"/false) compiled one after the other in both orders. non-trivial = tuples containing an extreme value, a zero divisor or a wrong-typed operand"
	r.Assume = []string{"boundary alphabet of int64 (plus a few mid-range values in the thorough tier), not all 2^64 values", "errors are compared by presence only"}
	var names []string
	for n, c := range ref.Alias {
		if c18Scalar[c] {
			names = append(names, n)
		}
	}
	sort.Strings(names)
	r.Cov["operator_names"] = len(names)

	type job struct {
		ar    int
		first int // index of the first operand (sharding); -1 for arity 0
	}
	var jobs []job
	jobs = append(jobs, job{0, -1})
	for ar := 1; ar <= 4; ar++ {
		lim := len(vals)
		if ar == 4 {
			lim = nScalar
		}
		for f := 0; f < lim; f++ {
			jobs = append(jobs, job{ar, f})
		}
	}
	hs := harnesses(r.Workers)
	var tuples, evals, nontrivial int64
	opts := []drive.Opt{{}, {CF: true, RN: true, FE: true, RO: true}}
	r.ParallelFor(len(jobs), func(w, ji int) {
		j := jobs[ji]
		h := hs[w]
		lim := len(vals)
		if j.ar == 4 {
			lim = nScalar
		}
		idx := make([]int, j.ar)
		if j.ar > 0 {
			idx[0] = j.first
		}
		ops := make([]interface{}, j.ar)
		vars := make([]term.VarDecl, j.ar)
		for k := range vars {
			vars[k] = term.VarDecl{Name: fmt.Sprintf("v%d", k), Ty: term.TX}
		}
		for {
			for k, x := range idx {
				ops[k] = vals[x]
			}
			atomic.AddInt64(&tuples, 1)
			nt := false
			for k, o := range ops {
				switch v := o.(type) {
				case int64:
					if v == math.MinInt64 || v == math.MaxInt64 || (v == 0 && k > 0) {
						nt = true
					}
				case string, []int64:
					nt = true
				}
			}
			if nt {
				atomic.AddInt64(&nontrivial, 1)
			}
			r.Note(w, fmt.Sprint(ops))
			// outcome per name x form x option set
			outcome := map[string]drive.Out{}
			for _, name := range names {
				want, werr := ref.Builtin(name, ops)
				for form := 0; form < 4; form++ {
					// 0: all literals, 1: all variables, 2: first operand a variable, 3: last operand a variable
					if form >= 1 && j.ar == 0 || form >= 2 && j.ar < 2 {
						continue
					}
					var sb strings.Builder
					sb.WriteString("(" + name)
					for k, o := range ops {
						if form == 1 || (form == 2 && k == 0) || (form == 3 && k == len(ops)-1) {
							sb.WriteString(" " + vars[k].Name)
						} else {
							sb.WriteString(" " + c18Lit(o))
						}
					}
					sb.WriteString(")")
					src := sb.String()
					for oi, o := range opts {
						cfg := h.NewConfig(vars, o)
						e, err := h.Compile(cfg, src, 0)
						atomic.AddInt64(&evals, 1)
						var got drive.Out
						if err != nil {
							got = drive.Out{Err: err}
							if pe, ok := err.(*drive.PanicErr); ok {
								got = drive.Out{Panic: pe.V, Site: pe.Site}
							}
						} else {
							f := drive.NewFetcher(h, vars, o)
							copy(f.Vals, ops)
							h.Reset()
							got = h.Eval(e, f)
						}
						outcome[fmt.Sprintf("%s/%d/%d", name, form, oi)] = got
						if werr == ref.ErrUndefined {
							if got.Panic != nil {
								r.Violate("panic", name, sprintf("%s panics: %v", src, got.Panic), map[string]interface{}{"source": src, "operands": fmt.Sprint(ops)})
							}
							continue
						}
						if drive.SameOutcome(got, refOut(want, werr)) {
							continue
						}
						d := map[string]interface{}{"source": src, "operands": fmt.Sprint(ops), "config": o.String(), "got": got.String(), "want": refOut(want, werr).String()}
						// the known finding: the evaluator's short-circuit jump bypasses and/or
						if (term.IsAnd(name) || term.IsOr(name)) && werr != nil && got.Err == nil && got.Panic == nil {
							if b, isB := got.Val.(bool); isB && lazyShortcut(name, ops, b) && r.KnownOpen(c18Known) {
								r.HitKnown(c18Known)
								continue
							}
						}
						r.Violate("algebra", name+fmt.Sprint(j.ar), sprintf("%s = %s but the operator's algebra gives %s", src, got, refOut(want, werr)), d)
					}
				}
			}
			// aliases behave exactly like the named form (same form, same options)
			for _, name := range names {
				canon := ref.Alias[name]
				if canon == name {
					continue
				}
				for form := 0; form < 4; form++ {
					for oi := range opts {
						a, okA := outcome[fmt.Sprintf("%s/%d/%d", name, form, oi)]
						b, okB := outcome[fmt.Sprintf("%s/%d/%d", canon, form, oi)]
						if okA && okB && !drive.SameOutcome(a, b) {
							r.Violate("alias", name, sprintf("alias %s gives %s but %s gives %s on operands %v", name, a, canon, b, ops), map[string]interface{}{"operands": fmt.Sprint(ops), "as_variables": form == 1, "config": opts[oi].String()})
						}
					}
				}
			}
			// mutual laws on the engine's own answers (literal form, optimisations off)
			get := func(n string) drive.Out { return outcome[n+"/0/0"] }
			if j.ar == 2 {
				law := func(a, b string) {
					x, y := get(a), get(b)
					if x.Err == nil && y.Err == nil && x.Panic == nil && y.Panic == nil {
						xb, ok1 := x.Val.(bool)
						yb, ok2 := y.Val.(bool)
						if ok1 && ok2 && xb == yb {
							r.Violate("law", a+b, sprintf("%s and %s must be each other's negation but both give %v on %v", a, b, xb, ops), map[string]interface{}{"operands": fmt.Sprint(ops)})
						}
					}
				}
				law("eq", "ne")
				law("le", "gt")
				law("ge", "lt")
			}
			k := j.ar - 1
			for ; k >= 1; k-- {
				idx[k]++
				if idx[k] < lim {
					break
				}
				idx[k] = 0
			}
			if k < 1 {
				break
			}
		}
		if ji%7 == 0 {
			r.Sample(10, map[string]interface{}{"operand_count": j.ar, "first_operand": fmt.Sprint(func() interface{} {
				if j.first >= 0 {
					return vals[j.first]
				}
				return "-"
			}()), "names": len(names)})
		}
	})
	// chains of unary operators over every operand value (an optimiser may cancel pairs)
	{
		h := hs[0]
		for _, v := range vals {
			for _, chain := range [][]string{{"not", "not"}, {"!", "!"}, {"not", "!"}, {"not", "not", "not"}, {"!", "not", "!", "not"}} {
				for form := 0; form < 2; form++ {
					inner := c18Lit(v)
					vars := []term.VarDecl{{Name: "v0", Ty: term.TX}}
					if form == 1 {
						inner = "v0"
					}
					src := inner
					var want interface{} = v
					var werr error
					for i := len(chain) - 1; i >= 0; i-- {
						src = "(" + chain[i] + " " + src + ")"
						if werr == nil {
							want, werr = ref.Builtin(chain[i], []interface{}{want})
						}
					}
					for _, o := range opts {
						e, err := h.Compile(h.NewConfig(vars, o), src, 0)
						var got drive.Out
						if err != nil {
							got = drive.Out{Err: err}
						} else {
							f := drive.NewFetcher(h, vars, o)
							f.Vals[0] = v
							h.Reset()
							got = h.Eval(e, f)
						}
						atomic.AddInt64(&evals, 1)
						if !drive.SameOutcome(got, refOut(want, werr)) {
							r.Violate("algebra", "chain"+src, sprintf("%s = %s but the operators' algebra gives %s", src, got, refOut(want, werr)), map[string]interface{}{"source": src, "config": o.String()})
						}
					}
				}
			}
		}
	}
	// wide folds: every variadic scalar operator with 5..127 operands, all equal
	// to a neutral base value except ONE operand at every position (and, for
	// the arithmetic folds, a second one), written as literals and as variables,
	// both option sets: the fold takes every operand into account whatever its
	// index
	{
		h := hs[0]
		type wide struct {
			name     string
			base, dv interface{}
		}
		var ws []wide
		for _, n := range names {
			switch ref.Alias[n] {
			case "and":
				ws = append(ws, wide{n, true, false})
			case "or":
				ws = append(ws, wide{n, false, true})
			case "xor":
				ws = append(ws, wide{n, false, true}, wide{n, true, false})
			case "add":
				ws = append(ws, wide{n, int64(0), int64(5)}, wide{n, int64(1), int64(math.MaxInt64)})
			case "sub":
				ws = append(ws, wide{n, int64(0), int64(7)})
			case "mul":
				ws = append(ws, wide{n, int64(1), int64(3)}, wide{n, int64(1), int64(0)})
			case "eq":
				ws = append(ws, wide{n, int64(4), int64(5)})
			}
		}
		counts := []int{5, 8, 16, 31, 32, 33, 63, 64, 65, 66, 100, 126, 127}
		var n int64
		for _, wd := range ws {
			for _, cnt := range counts {
				vars := make([]term.VarDecl, cnt)
				for k := range vars {
					vars[k] = term.VarDecl{Name: fmt.Sprintf("v%d", k), Ty: term.TX}
				}
				positions := []int{-1}
				for p := 0; p < cnt; p++ {
					if cnt <= 33 || p < 2 || p >= cnt-3 || (p >= 30 && p <= 34) || (p >= 62 && p <= 66) || p%16 == 7 {
						positions = append(positions, p)
					}
				}
				for _, pos := range positions {
					ops := make([]interface{}, cnt)
					for k := range ops {
						ops[k] = wd.base
					}
					if pos >= 0 {
						ops[pos] = wd.dv
					}
					want, werr := ref.Builtin(wd.name, ops)
					if werr == ref.ErrUndefined {
						continue
					}
					for form := 0; form < 2; form++ {
						var sb strings.Builder
						sb.WriteString("(" + wd.name)
						for k, o := range ops {
							if form == 0 {
								sb.WriteString(" " + c18Lit(o))
							} else {
								sb.WriteString(fmt.Sprintf(" v%d", k))
							}
						}
						sb.WriteString(")")
						src := sb.String()
						for _, o := range opts {
							var vs []term.VarDecl
							if form == 1 {
								vs = vars
							}
							e, err := h.Compile(h.NewConfig(vs, o), src, 0)
							n++
							d := map[string]interface{}{"operator": wd.name, "operands": cnt, "deviating_position": pos, "base": fmt.Sprint(wd.base), "deviating_value": fmt.Sprint(wd.dv), "config": o.String(), "form": []string{"literals", "variables"}[form]}
							if err != nil {
								r.Violate("algebra", "wide-compile"+wd.name, sprintf("(%s ...) with %d operands does not compile: %v", wd.name, cnt, err), d)
								continue
							}
							f := drive.NewFetcher(h, vs, o)
							if form == 1 {
								copy(f.Vals, ops)
							}
							h.Reset()
							got := h.Eval(e, f)
							if !drive.SameOutcome(got, refOut(want, werr)) {
								r.Violate("algebra", "wide"+wd.name+fmt.Sprint(cnt), sprintf("(%s ...) with %d operands, all %v except operand #%d = %v (%s, %s): %s, the fold gives %s", wd.name, cnt, wd.base, pos, wd.dv, d["form"], o, got, refOut(want, werr)), d)
							}
						}
					}
				}
			}
		}
		atomic.AddInt64(&evals, n)
		r.Cov["wide_fold_evaluations"] = n
	}
	// compositions: the boolean folds nested in one another (every ordered pair
	// of and/or/xor spellings, either operand position, optionally under not),
	// every boolean assignment, operands written as literals and as variables,
	// both option sets: each operator is the fold of ITS OWN operands, nesting
	// never merges one operator's operands into another's
	{
		h := hs[0]
		var bnames []string
		for _, n := range names {
			if c := ref.Alias[n]; c == "and" || c == "or" || c == "xor" {
				bnames = append(bnames, n)
			}
		}
		var n int64
		apply := func(name string, ops ...interface{}) interface{} {
			v, err := ref.Builtin(name, ops)
			if err != nil {
				panic("c18: oracle fails on booleans: " + name)
			}
			return v
		}
		for _, o1 := range bnames {
			for _, o2 := range bnames {
				for shape := 0; shape < 6; shape++ {
					for bits := 0; bits < 16; bits++ {
						a, b, c, dd := bits&1 != 0, bits&2 != 0, bits&4 != 0, bits&8 != 0
						if shape < 4 && dd {
							continue
						}
						for form := 0; form < 2; form++ {
							lit := func(k int, v bool) string {
								if form == 0 {
									return fmt.Sprint(v)
								}
								return fmt.Sprintf("v%d", k)
							}
							A, B_, C, D := lit(0, a), lit(1, b), lit(2, c), lit(3, dd)
							var src string
							var want interface{}
							switch shape {
							case 0:
								src, want = sprintf("(%s (%s %s %s) %s)", o1, o2, A, B_, C), apply(o1, apply(o2, a, b), c)
							case 1:
								src, want = sprintf("(%s %s (%s %s %s))", o1, A, o2, B_, C), apply(o1, a, apply(o2, b, c))
							case 2:
								src, want = sprintf("(%s (not (%s %s %s)) %s)", o1, o2, A, B_, C), apply(o1, apply("not", apply(o2, a, b)), c)
							case 3:
								src, want = sprintf("(%s %s (%s %s %s) %s)", o1, A, o2, B_, C, A), apply(o1, a, apply(o2, b, c), a)
							case 4:
								src, want = sprintf("(%s (%s %s %s) (%s %s %s))", o1, o2, A, B_, o2, C, D), apply(o1, apply(o2, a, b), apply(o2, c, dd))
							case 5:
								src, want = sprintf("(%s (%s %s %s %s) %s)", o1, o2, A, B_, C, D), apply(o1, apply(o2, a, b, c), dd)
							}
							vars := []term.VarDecl{{Name: "v0", Ty: term.TB}, {Name: "v1", Ty: term.TB}, {Name: "v2", Ty: term.TB}, {Name: "v3", Ty: term.TB}}
							for _, o := range opts {
								e, err := h.Compile(h.NewConfig(vars, o), src, 0)
								n++
								if err != nil {
									r.Violate("algebra", "compose-compile"+o1+o2, sprintf("%s does not compile: %v", src, err), map[string]interface{}{"source": src, "config": o.String()})
									continue
								}
								f := drive.NewFetcher(h, vars, o)
								f.Vals[0], f.Vals[1], f.Vals[2], f.Vals[3] = a, b, c, dd
								h.Reset()
								got := h.Eval(e, f)
								if !drive.SameOutcome(got, drive.Out{Val: want}) {
									r.Violate("algebra", "compose"+o1+o2+fmt.Sprint(shape), sprintf("%s with v0..v3 = %v %v %v %v under %s = %s, the folds give %v", src, a, b, c, dd, o, got, want),
										map[string]interface{}{"source": src, "config": o.String(), "values": []bool{a, b, c, dd}})
								}
							}
						}
					}
				}
			}
		}
		atomic.AddInt64(&evals, n)
		r.Cov["nested_boolean_fold_evaluations"] = n
	}
	// look-alike operands: for every name x arity 1..3, every tuple over values
	// that PRINT alike but differ in type (1 / "1", true / "true", 0 / "0" /
	// false), compiled one after the other in this process in both orders
	// (typed first, then the look-alikes, and the reverse): each outcome is the
	// algebra's, whatever was compiled before
	{
		h := hs[0]
		look := []interface{}{int64(1), "1", true, "true", int64(0), "0", false, "false"}
		var n int64
		for _, name := range names {
			for ar := 1; ar <= 3; ar++ {
				idx := make([]int, ar)
				var tuplesL [][]interface{}
				for {
					t := make([]interface{}, ar)
					for k, x := range idx {
						t[k] = look[x]
					}
					tuplesL = append(tuplesL, t)
					k := ar - 1
					for ; k >= 0; k-- {
						idx[k]++
						if idx[k] < len(look) {
							break
						}
						idx[k] = 0
					}
					if k < 0 {
						break
					}
				}
				for pass := 0; pass < 2; pass++ {
					for ti := range tuplesL {
						ops := tuplesL[ti]
						if pass == 1 {
							ops = tuplesL[len(tuplesL)-1-ti]
						}
						want, werr := ref.Builtin(name, ops)
						if werr == ref.ErrUndefined {
							continue
						}
						var sb strings.Builder
						sb.WriteString("(" + name)
						for _, o := range ops {
							sb.WriteString(" " + c18Lit(o))
						}
						sb.WriteString(")")
						src := sb.String()
						for _, o := range opts {
							e, err := h.Compile(h.NewConfig(nil, o), src, 0)
							var got drive.Out
							if err != nil {
								got = drive.Out{Err: err}
								if pe, ok := err.(*drive.PanicErr); ok {
									got = drive.Out{Panic: pe.V, Site: pe.Site}
								}
							} else {
								h.Reset()
								got = h.Eval(e, drive.NewFetcher(h, nil, o))
							}
							n++
							if drive.SameOutcome(got, refOut(want, werr)) {
								continue
							}
							if (term.IsAnd(name) || term.IsOr(name)) && werr != nil && got.Err == nil && got.Panic == nil {
								if b, isB := got.Val.(bool); isB && lazyShortcut(name, ops, b) && r.KnownOpen(c18Known) {
									r.HitKnown(c18Known)
									continue
								}
							}
							r.Violate("algebra", "lookalike"+name+fmt.Sprint(ar), sprintf("%s = %s but the operator's algebra gives %s (compiled after other calls of %s with look-alike operands)", src, got, refOut(want, werr), name), map[string]interface{}{"source": src, "config": o.String(), "pass": pass})
						}
					}
				}
			}
		}
		atomic.AddInt64(&evals, n)
		r.Cov["lookalike_compilations"] = n
	}
	r.Cov["operand_tuples"] = tuples
	r.Add(tuples, evals, evals, evals, nontrivial)
	r.Finish()
}

func c18Lit(v interface{}) string {
	switch x := v.(type) {
	case int64:
		return fmt.Sprint(x)
	case bool:
		return fmt.Sprint(x)
	case string:
		return `"` + x + `"`
	case []int64:
		return c17Lit(x)
	}
	panic("c18Lit")
}
