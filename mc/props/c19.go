package props

import (
	"fmt"
	"strings"
	"sync/atomic"
	"time"

	eval "github.com/onheap/eval"

	"verifmc/drive"
	"verifmc/ref"
	"verifmc/rep"
	"verifmc/term"
)

func init() { Registry["C19"] = c19 }

type c19eval struct {
	h     *drive.Harness
	cache map[string]*eval.Expr
	vars  []term.VarDecl
	n     *int64
}

// call evaluates (name args...) with every argument bound through a variable
// (form 0) or written as a literal (form 1).
func (c *c19eval) call(name string, args []interface{}, literal bool) drive.Out {
	var sb strings.Builder
	sb.WriteString("(" + name)
	for i, a := range args {
		if literal {
			sb.WriteString(" " + c18Lit(a))
		} else {
			sb.WriteString(fmt.Sprintf(" v%d", i))
		}
	}
	sb.WriteString(")")
	src := sb.String()
	opt := drive.Opt{}
	if literal {
		opt = drive.Opt{CF: true, FE: true} // folding runs the operator at compile time
	}
	e := c.cache[src]
	if e == nil {
		cfg := c.h.NewConfig(c.vars, opt)
		var err error
		e, err = c.h.Compile(cfg, src, 0)
		if err != nil {
			return drive.Out{Err: err}
		}
		if !literal {
			c.cache[src] = e
		}
	}
	f := drive.NewFetcher(c.h, c.vars, opt)
	copy(f.Vals, args)
	c.h.Reset()
	atomic.AddInt64(c.n, 1)
	return c.h.Eval(e, f)
}

func sign(x int64) int {
	switch {
	case x < 0:
		return -1
	case x > 0:
		return 1
	}
	return 0
}

func cmpVersions(a, b string, n int) int {
	pa, pb := strings.Split(a, "."), strings.Split(b, ".")
	for i := 0; i < n; i++ {
		var x, y int64
		if i < len(pa) {
			fmt.Sscan(pa[i], &x)
		}
		if i < len(pb) {
			fmt.Sscan(pb[i], &y)
		}
		if x != y {
			return sign(x - y)
		}
	}
	return 0
}

func c19(r *rep.Run) {
	r.SetBudget(300e9)
	if r.Thorough() {
		r.SetBudget(1800e9)
	}
	comps := []string{"0", "1", "9", "10", "007", "9998", "9999"}
	if r.Thorough() {
		comps = append(comps, "100", "1000", "5000", "9008", "0000")
	}
	r.Rule = "versions: for every valid length N in 1..4 (explicit) and the default (3), EVERY version string of <= N components over {0,1,9,10,007,9998,9999} is encoded by the real operator under all three operator names, bound through a variable and written as a literal (folded at compile time); the encoding must equal the base-10000 positional value exactly and, for EVERY pair, sign(enc a - enc b) = component-wise comparison with missing components read as 0; (< (to_version a N) (to_version b N)) is also evaluated end-to-end for every pair with N <= 2 and every pair of 4-component strings over {0,9999}; every rejection (10000, 99999, letters, empty, blank-prefixed) in every position, valid lengths {0,5,-1,\"3\"} and wrong counts must be errors. dates: every date of an 11-year x 7-day calendar alphabet (year 1, 1600, 1900, 1969/1970, leap days, month ends, 9999) x {00:00:00, 00:00:01, 23:59:59} under the default layouts and two custom layouts (day-first, RFC 3339 with Z/+05:30/-08:00 offsets), all 8 operator names: Unix seconds must equal the independent days-from-civil computation, every pair must order chronologically, and impossible days/months/times and malformed texts must be errors. non-trivial = pairs whose order is decided by a component >= 9998 or by a date before 1970 / at a leap day The date family runs under four process-local zones (time.Local = UTC, +02:00, -08:00, +05:45): the encoding is UTC whatever the host zone."
	r.Assume = []string{"version components above the valid length, signed components and layouts other than the four modelled ones are outside the oracle (skipped, only checked for panics)"}
	hs := harnesses(r.Workers)
	vars := []term.VarDecl{{Name: "v0", Ty: term.TX}, {Name: "v1", Ty: term.TX}, {Name: "v2", Ty: term.TX}}
	var evals, pairs, nontrivial int64
	mk := func(w int) *c19eval { return &c19eval{h: hs[w], cache: map[string]*eval.Expr{}, vars: vars, n: &evals} }

	// ---- versions ----
	verNames := []string{"version", "t_version", "to_version"}
	type vjob struct{ n int } // 0 = default length
	r.ParallelFor(5, func(w, ji int) {
		c := mk(w)
		n := ji // 0: default(3), 1..4 explicit
		N := n
		if n == 0 {
			N = 3
		}
		var strs []string
		prev := []string{""}
		for l := 1; l <= N; l++ {
			var cur []string
			for _, p := range prev {
				for _, x := range comps {
					if p == "" {
						cur = append(cur, x)
					} else {
						cur = append(cur, p+"."+x)
					}
				}
			}
			strs = append(strs, cur...)
			prev = cur
		}
		enc := make([]int64, len(strs))
		for i, s := range strs {
			r.Note(w, s)
			if i%64 == 0 {
				r.Tick()
			}
			args := []interface{}{s}
			if n != 0 {
				args = append(args, int64(n))
			}
			want, werr := ref.Builtin("version", args)
			if werr != nil {
				panic("c19: oracle rejects an in-domain version " + s)
			}
			enc[i] = want.(int64)
			for _, name := range verNames {
				for _, lit := range []bool{false, true} {
					got := c.call(name, args, lit)
					if !drive.SameOutcome(got, drive.Out{Val: want}) {
						r.Violate("version-encoding", name, sprintf("(%s %q%s) = %s, the base-10000 value is %d", name, s, map[bool]string{true: "", false: fmt.Sprintf(" %d", n)}[n == 0], got, want),
							map[string]interface{}{"version": s, "valid_length": N, "explicit_length": n != 0, "literal": lit})
					}
				}
			}
		}
		// every pair: order preserved (encodings verified equal to the engine's above)
		var np, nt int64
		for i := range strs {
			if i%64 == 0 {
				r.Tick() // one unit of work holds millions of pairs
			}
			for j := range strs {
				np++
				if sign(enc[i]-enc[j]) != cmpVersions(strs[i], strs[j], N) {
					r.Violate("version-order", "order", sprintf("encoded %q vs %q compares %d but the versions compare %d (valid length %d)", strs[i], strs[j], sign(enc[i]-enc[j]), cmpVersions(strs[i], strs[j], N), N), nil)
				}
				if strings.Contains(strs[i], "999") || strings.Contains(strs[j], "999") {
					nt++
				}
			}
		}
		// end-to-end comparisons
		if N <= 2 || n == 4 {
			sub := strs
			if n == 4 {
				sub = nil
				for _, s := range strs {
					if strings.Count(s, ".") == 3 && strings.Trim(s, "09.") == "" && !strings.Contains(s, "007") && !strings.Contains(s, "0000") && !strings.Contains(s, "90") && !strings.Contains(s, "99990") {
						ok := true
						for _, p := range strings.Split(s, ".") {
							if p != "0" && p != "9999" {
								ok = false
							}
						}
						if ok {
							sub = append(sub, s)
						}
					}
				}
			}
			for _, a := range sub {
				for _, b := range sub {
					src := fmt.Sprintf("(< (to_version v0 %d) (to_version v1 %d))", N, N)
					e := c.cache[src]
					if e == nil {
						cfg := c.h.NewConfig(vars, drive.Opt{})
						e, _ = c.h.Compile(cfg, src, 0)
						c.cache[src] = e
					}
					f := drive.NewFetcher(c.h, vars, drive.Opt{})
					f.Vals[0], f.Vals[1] = a, b
					c.h.Reset()
					got := c.h.Eval(e, f)
					atomic.AddInt64(&evals, 1)
					want := cmpVersions(a, b, N) < 0
					if !drive.SameOutcome(got, drive.Out{Val: want}) {
						r.Violate("version-compare", "e2e", sprintf("(< (to_version %q %d) (to_version %q %d)) = %s, expected %v", a, N, b, N, got, want), nil)
					}
				}
			}
		}
		atomic.AddInt64(&pairs, np)
		atomic.AddInt64(&nontrivial, nt)
		r.Sample(5, map[string]interface{}{"valid_length": N, "explicit": n != 0, "version_strings": len(strs), "pairs": np})
	})
	// rejections
	c := mk(0)
	bad := []string{"10000", "99999", "a", "1a", "", " 1", "1 ", "1e3", "0x1", "9999999999999999999999",
		"9223372036854775807", "9223372036854775808", "18446744073709551615", "18446744073709551616", "18446744073709551617", "18446744073709561615", "36893488147419103233", "00000000000000000000010000", "1_0", "٣"}
	for n := 0; n <= 4; n++ {
		N := n
		if n == 0 {
			N = 3
		}
		for pos := 0; pos < N; pos++ {
			for _, b := range bad {
				parts := make([]string, N)
				for i := range parts {
					parts[i] = "1"
				}
				parts[pos] = b
				for keep := pos + 1; keep <= N; keep++ {
					s := strings.Join(parts[:keep], ".")
					args := []interface{}{s}
					if n != 0 {
						args = append(args, int64(n))
					}
					_, werr := ref.Builtin("version", args)
					if werr == ref.ErrUndefined {
						continue
					}
					for _, name := range verNames {
						for _, lit := range []bool{false, true} {
							if lit && strings.ContainsAny(s, "\"") {
								continue
							}
							got := c.call(name, args, lit)
							if got.Err == nil {
								r.Violate("version-accepts-invalid", name+b, sprintf("(%s %q) with valid length %d is accepted (%s) although component %q is outside 0..9999", name, s, N, got, b), nil)
							}
						}
					}
				}
			}
		}
	}
	for _, l := range []interface{}{int64(0), int64(5), int64(-1), "3", true, int64(6), int64(255), int64(256), int64(257), int64(258), int64(259), int64(260), int64(261), int64(513), int64(-255), int64(-252), int64(65537), int64(1<<32 + 3), int64(1<<63 - 1), int64(-1 << 63), int64(1<<63 - 4)} {
		for _, name := range verNames {
			if got := c.call(name, []interface{}{"1.2.3", l}, false); got.Err == nil {
				r.Violate("version-accepts-invalid", name+"len", sprintf("(%s \"1.2.3\" %v) accepts a valid length outside 1..4: %s", name, l, got), nil)
			}
		}
	}
	for _, name := range verNames {
		for _, args := range [][]interface{}{{}, {"1", int64(1), int64(1)}, {int64(1)}, {[]string{"1"}}} {
			if got := c.call(name, args, false); got.Err == nil {
				r.Violate("version-accepts-invalid", name+"args", sprintf("(%s %v) is accepted: %s", name, args, got), nil)
			}
		}
	}

	// ---- dates ----
	years := []int{1, 1600, 1900, 1969, 1970, 1999, 2000, 2023, 2024, 2100, 9999}
	mds := [][2]int{{1, 1}, {2, 28}, {2, 29}, {3, 1}, {4, 30}, {6, 15}, {12, 31}}
	times := [][3]int{{0, 0, 0}, {0, 0, 1}, {23, 59, 59}}
	type stamp struct {
		y, mo, d, h, mi, s int
		unix               int64
	}
	var stamps []stamp
	for _, y := range years {
		for _, md := range mds {
			if md[0] == 2 && md[1] == 29 && !(y%4 == 0 && (y%100 != 0 || y%400 == 0)) {
				continue
			}
			for _, t := range times {
				txt := fmt.Sprintf("%04d-%02d-%02d %02d:%02d:%02d", y, md[0], md[1], t[0], t[1], t[2])
				u, valid, _ := ref.ParseCivil("2006-01-02 15:04:05", txt)
				if !valid {
					panic("c19: oracle rejects " + txt)
				}
				stamps = append(stamps, stamp{y, md[0], md[1], t[0], t[1], t[2], u})
			}
		}
	}
	type dcase struct {
		name string
		args []interface{}
		want int64
	}
	var dcases []dcase
	for _, s := range stamps {
		dt := fmt.Sprintf("%04d-%02d-%02d %02d:%02d:%02d", s.y, s.mo, s.d, s.h, s.mi, s.s)
		d := fmt.Sprintf("%04d-%02d-%02d", s.y, s.mo, s.d)
		dayFirst := fmt.Sprintf("%02d/%02d/%04d", s.d, s.mo, s.y)
		midnight := s.unix - int64(s.h*3600+s.mi*60+s.s)
		for _, n := range []string{"datetime", "to_datetime", "td_time"} {
			dcases = append(dcases, dcase{n, []interface{}{dt}, s.unix})
		}
		for _, n := range []string{"datetime", "to_datetime", "t_time", "t_date", "date"} {
			dcases = append(dcases, dcase{n, []interface{}{dt, "2006-01-02 15:04:05"}, s.unix})
			for _, off := range []struct {
				txt  string
				secs int64
			}{{"Z", 0}, {"+05:30", 19800}, {"-08:00", -28800}} {
				dcases = append(dcases, dcase{n, []interface{}{strings.Replace(dt, " ", "T", 1) + off.txt, "2006-01-02T15:04:05Z07:00"}, s.unix - off.secs})
			}
		}
		// layouts with non-padded elements accept the padded and the non-padded spelling
		for _, n := range []string{"datetime", "t_time", "date"} {
			dcases = append(dcases, dcase{n, []interface{}{dt, "2006-1-2 15:4:5"}, s.unix},
				dcase{n, []interface{}{fmt.Sprintf("%04d-%d-%d %02d:%d:%d", s.y, s.mo, s.d, s.h, s.mi, s.s), "2006-1-2 15:4:5"}, s.unix})
		}
		for _, off := range []string{"+00:00", "-00:00"} {
			dcases = append(dcases, dcase{"t_time", []interface{}{strings.Replace(dt, " ", "T", 1) + off, "2006-01-02T15:04:05Z07:00"}, s.unix})
		}
		if s.h == 0 && s.mi == 0 && s.s == 0 {
			for _, n := range []string{"date", "t_date", "to_date"} {
				dcases = append(dcases, dcase{n, []interface{}{d, "2006-1-2"}, midnight}, dcase{n, []interface{}{fmt.Sprintf("%04d-%d-%d", s.y, s.mo, s.d), "2006-1-2"}, midnight})
			}
			for _, n := range []string{"date", "to_date", "td_date"} {
				dcases = append(dcases, dcase{n, []interface{}{d}, midnight})
			}
			for _, n := range []string{"date", "to_date", "t_date", "t_time", "datetime"} {
				dcases = append(dcases, dcase{n, []interface{}{dayFirst, "02/01/2006"}, midnight})
				dcases = append(dcases, dcase{n, []interface{}{d, "2006-01-02"}, midnight})
			}
		}
	}
	// the encoding is defined in UTC whatever zone the PROCESS runs in: the
	// whole family is run under four local zones (an environment answer the
	// harness owns: time.Local)
	origLocal := time.Local
	for _, zone := range []*time.Location{time.UTC, time.FixedZone("east", 2*3600), time.FixedZone("west", -8*3600), time.FixedZone("kathmandu", 5*3600+45*60)} {
		time.Local = zone
		zoneName := zone.String()
		r.ParallelFor(len(dcases), func(w, i int) {
			dc := dcases[i]
			c := mk(w)
			want, werr := ref.Builtin(dc.name, dc.args)
			if werr != nil || want.(int64) != dc.want {
				panic(fmt.Sprintf("c19: oracle inconsistency on %v: %v %v want %d", dc, want, werr, dc.want))
			}
			for _, lit := range []bool{false, true} {
				got := c.call(dc.name, dc.args, lit)
				if !drive.SameOutcome(got, drive.Out{Val: dc.want}) {
					r.Violate("date-encoding", dc.name, sprintf("(%s %v) = %s, the UTC Unix time is %d (process local zone: %s)", dc.name, dc.args, got, dc.want, zoneName), map[string]interface{}{"literal": lit, "process_local_zone": zoneName})
				}
			}
			if i%311 == 0 {
				r.Sample(12, map[string]interface{}{"date_call": fmt.Sprintf("(%s %v)", dc.name, dc.args), "unix": dc.want})
			}
		})
	}
	time.Local = origLocal
	// cross-layout matrix: "custom layouts are honoured" also means that a text
	// written for ONE layout is judged by the layout the call names, never by
	// another one (the operator's default in particular): every calendar day
	// rendered under every modelled layout x every modelled layout as the
	// second argument; the oracle decides value or error independently.
	{
		allLayouts := []string{"2006-01-02", "02/01/2006", "01/02/2006", "2006-02-01", "2006-01-02 15:04:05", "2006-01-02T15:04:05Z07:00", "2006-1-2", "2006-1-2 15:4:5"}
		var texts []string
		seenTxt := map[string]bool{}
		for _, s := range stamps {
			if s.h != 0 || s.mi != 0 {
				continue
			}
			for _, t := range []string{
				fmt.Sprintf("%04d-%02d-%02d", s.y, s.mo, s.d), fmt.Sprintf("%02d/%02d/%04d", s.d, s.mo, s.y), fmt.Sprintf("%02d/%02d/%04d", s.mo, s.d, s.y),
				fmt.Sprintf("%04d-%02d-%02d", s.y, s.d, s.mo), fmt.Sprintf("%04d-%02d-%02d %02d:%02d:%02d", s.y, s.mo, s.d, s.h, s.mi, s.s),
				fmt.Sprintf("%04d-%02d-%02dT%02d:%02d:%02dZ", s.y, s.mo, s.d, s.h, s.mi, s.s), fmt.Sprintf("%04d-%d-%d", s.y, s.mo, s.d),
			} {
				if !seenTxt[t] {
					seenTxt[t] = true
					texts = append(texts, t)
				}
			}
		}
		var cross, crossErr int64
		r.ParallelFor(len(texts), func(w, i int) {
			c := mk(w)
			txt := texts[i]
			for _, L := range allLayouts {
				want, valid, modelled := ref.ParseCivil(L, txt)
				if !modelled {
					continue
				}
				for _, n := range []string{"date", "datetime", "to_date", "to_datetime", "t_date", "t_time"} {
					for _, lit := range []bool{false, true} {
						got := c.call(n, []interface{}{txt, L}, lit)
						atomic.AddInt64(&cross, 1)
						d := map[string]interface{}{"literal": lit, "text": txt, "layout": L}
						switch {
						case got.Panic != nil:
							r.Violate("date-panic", n+L, sprintf("(%s %q %q) panics: %v", n, txt, L, got.Panic), d)
						case valid && !drive.SameOutcome(got, drive.Out{Val: want}):
							r.Violate("date-encoding", n+"cross"+L, sprintf("(%s %q %q) = %s, under that layout the UTC Unix time is %d", n, txt, L, got, want), d)
						case !valid && got.Err == nil:
							r.Violate("date-accepts-invalid", n+"cross"+L, sprintf("(%s %q %q) is accepted (%s) although the text is not a date under the layout the call names", n, txt, L, got), d)
						}
						if !valid {
							atomic.AddInt64(&crossErr, 1)
						}
					}
				}
			}
		})
		r.Cov["date_cross_layout_calls"] = cross
		r.Cov["date_cross_layout_rejections_expected"] = crossErr
	}
	// every pair orders chronologically (encodings were verified equal to the engine's)
	var dp, dnt int64
	for _, a := range stamps {
		for _, b := range stamps {
			dp++
			ca := [6]int{a.y, a.mo, a.d, a.h, a.mi, a.s}
			cb := [6]int{b.y, b.mo, b.d, b.h, b.mi, b.s}
			chron := 0
			for k := 0; k < 6 && chron == 0; k++ {
				chron = sign(int64(ca[k] - cb[k]))
			}
			if sign(a.unix-b.unix) != chron {
				r.Violate("date-order", "order", sprintf("encodings of %v and %v compare %d, chronologically %d", ca, cb, sign(a.unix-b.unix), chron), nil)
			}
			if a.y < 1970 || b.y < 1970 || (a.mo == 2 && a.d == 29) {
				dnt++
			}
		}
	}
	// end-to-end date comparison on the day-granularity subset
	{
		c := mk(0)
		var days []stamp
		for _, s := range stamps {
			if s.h == 0 && s.mi == 0 && s.s == 0 {
				days = append(days, s)
			}
		}
		cfg := c.h.NewConfig(vars, drive.Opt{})
		e, _ := c.h.Compile(cfg, "(< (date v0) (to_date v1))", 0)
		e2, _ := c.h.Compile(cfg, "(>= (t_date v0 \"02/01/2006\") (td_date v1))", 0)
		for _, a := range days {
			for _, b := range days {
				f := drive.NewFetcher(c.h, vars, drive.Opt{})
				f.Vals[0], f.Vals[1] = fmt.Sprintf("%04d-%02d-%02d", a.y, a.mo, a.d), fmt.Sprintf("%04d-%02d-%02d", b.y, b.mo, b.d)
				c.h.Reset()
				got := c.h.Eval(e, f)
				if !drive.SameOutcome(got, drive.Out{Val: a.unix < b.unix}) {
					r.Violate("date-compare", "e2e", sprintf("(< (date %v) (to_date %v)) = %s", f.Vals[0], f.Vals[1], got), nil)
				}
				f.Vals[0] = fmt.Sprintf("%02d/%02d/%04d", a.d, a.mo, a.y)
				c.h.Reset()
				got = c.h.Eval(e2, f)
				atomic.AddInt64(&evals, 2)
				if !drive.SameOutcome(got, drive.Out{Val: a.unix >= b.unix}) {
					r.Violate("date-compare", "e2e2", sprintf("(>= (t_date %v dd/mm/yyyy) (td_date %v)) = %s", f.Vals[0], f.Vals[1], got), nil)
				}
			}
		}
	}
	// rejections
	badDates := []string{"2023-02-30", "2023-02-29", "2100-02-29", "1900-02-29", "2023-04-31", "2023-06-31", "2023-13-01", "2023-00-10", "2023-01-00", "2023-01-32",
		"2023-1-1", "20230101", "", "abc", "2023-01-01x", " 2023-01-01", "2023/01/01", "23-01-01", "2023-01-01 00:00:00"}
	for _, b := range badDates {
		for _, n := range []string{"date", "to_date", "td_date"} {
			if got := c.call(n, []interface{}{b}, false); got.Err == nil {
				r.Violate("date-accepts-invalid", n+b, sprintf("(%s %q) is accepted: %s", n, b, got), nil)
			}
			if got := c.call(n, []interface{}{b}, true); got.Err == nil {
				r.Violate("date-accepts-invalid", n+b+"lit", sprintf("(%s %q) written as a literal is accepted: %s", n, b, got), nil)
			}
		}
		for _, n := range []string{"date", "t_date", "t_time"} {
			if got := c.call(n, []interface{}{b, "2006-01-02"}, false); got.Err == nil {
				r.Violate("date-accepts-invalid", n+b+"layout", sprintf("(%s %q \"2006-01-02\") is accepted: %s", n, b, got), nil)
			}
		}
	}
	badTimes := []string{"2023-02-30 00:00:00", "2023-04-31 10:00:00", "2023-01-01 24:00:00", "2023-01-01 23:60:00", "2023-01-01 23:59:60", "2023-01-01", "2023-01-01T00:00:00", "2023-01-01 0:0:0", "", "x"}
	for _, b := range badTimes {
		for _, n := range []string{"datetime", "to_datetime", "td_time"} {
			if got := c.call(n, []interface{}{b}, false); got.Err == nil {
				r.Violate("date-accepts-invalid", n+b, sprintf("(%s %q) is accepted: %s", n, b, got), nil)
			}
		}
		for _, n := range []string{"datetime", "t_time"} {
			if got := c.call(n, []interface{}{b, "2006-01-02 15:04:05"}, false); got.Err == nil {
				r.Violate("date-accepts-invalid", n+b+"layout", sprintf("(%s %q layout) is accepted: %s", n, b, got), nil)
			}
		}
	}
	for _, n := range []string{"date", "datetime", "to_date", "to_datetime", "t_date", "t_time", "td_date", "td_time"} {
		for _, args := range [][]interface{}{{}, {int64(1)}, {"2023-01-01", int64(3)}, {"2023-01-01", "2006-01-02", "x"}, {true}} {
			got := c.call(n, args, false)
			if got.Panic != nil {
				r.Violate("date-panic", n, sprintf("(%s %v) panics: %v", n, args, got.Panic), nil)
			} else if got.Err == nil {
				r.Violate("date-accepts-invalid", n+"args", sprintf("(%s %v) is accepted: %s", n, args, got), nil)
			}
		}
	}
	r.Cov["version_pairs"] = pairs
	r.Cov["date_stamps"] = len(stamps)
	r.Cov["date_pairs"] = dp
	r.Cov["date_calls"] = len(dcases)
	r.Add(pairs+dp, evals+pairs+dp, evals, evals, nontrivial+dnt)
	r.Finish()
}
