package props

import (
	"fmt"
	"math"
	"sort"
	"strings"
	"sync/atomic"
	"time"

	eval "github.com/onheap/eval"

	"verifmc/drive"
	"verifmc/ref"
	"verifmc/rep"
)

func init() { Registry["C11"] = c11 }

type c11layout map[string]eval.VariableKey

func (l c11layout) key() string {
	var p []string
	for k, v := range l {
		p = append(p, fmt.Sprintf("%s=%d", k, v))
	}
	sort.Strings(p)
	return strings.Join(p, ",")
}

func (l c11layout) clone() c11layout {
	c := c11layout{}
	for k, v := range l {
		c[k] = v
	}
	return c
}

var c11Names = []string{"a", "b", "c", "d"}

// c11Register applies the real GetOrRegisterKey to a config holding layout
// l and checks the transition invariants. Returns the new layout.
func c11Register(r *rep.Run, l c11layout, name string, hist []string) (c11layout, bool) {
	cfg := eval.NewConfig()
	for k, v := range l {
		cfg.VariableKeyMap[k] = v
	}
	var key eval.VariableKey
	if p, site := drive.Fence(func() { key = eval.GetOrRegisterKey(cfg, name) }); p != nil {
		r.Violate("register-panic", site, sprintf("GetOrRegisterKey(%q) panics on layout {%s}: %v", name, l.key(), p), map[string]interface{}{"layout": l.key(), "history": hist, "name": name})
		return l, false
	}
	next := c11layout{}
	for k, v := range cfg.VariableKeyMap {
		next[k] = v
	}
	d := map[string]interface{}{"layout_before": l.key(), "layout_after": next.key(), "history": hist, "registered": name, "returned_key": int(key)}
	ok := true
	if stored, exist := next[name]; !exist || stored != key {
		r.Violate("register-returned-key", "rk", sprintf("GetOrRegisterKey(%q) returned %d but the map holds %v", name, key, next[name]), d)
		ok = false
	}
	for k, v := range l {
		if nv, exist := next[k]; !exist || nv != v {
			r.Violate("register-changed-existing", "ce", sprintf("GetOrRegisterKey(%q) changed the existing assignment of %q from %d to %v", name, k, v, next[k]), d)
			ok = false
		}
	}
	if len(next) != len(l)+boolI(l[name] == 0 && !has(l, name)) {
		if _, had := l[name]; had && len(next) != len(l) || !had && len(next) != len(l)+1 {
			r.Violate("register-map-size", "ms", sprintf("GetOrRegisterKey(%q) left the map with %d entries (had %d)", name, len(next), len(l)), d)
			ok = false
		}
	}
	seen := map[eval.VariableKey]string{}
	for k, v := range next {
		if o, dup := seen[v]; dup {
			r.Violate("register-duplicate-key", "dk", sprintf("after GetOrRegisterKey(%q) the names %q and %q share key %d", name, o, k, v), d)
			ok = false
		}
		seen[v] = k
	}
	return next, ok
}

func has(l c11layout, n string) bool { _, ok := l[n]; return ok }
func boolI(b bool) int {
	if b {
		return 1
	}
	return 0
}

const c11Expr = "(+ (* a 1) (* b 10) (* c 100) (* d 1000))"

// two variables as the two operands of one operator (fast path when
// FastEvaluation is on), and the same variable twice
var c11Pairs = []struct {
	src  string
	want func(b [4]int64) int64
}{
	{"(- a b)", func(b [4]int64) int64 { return b[0] - b[1] }},
	{"(+ (- c a) (* b b) (- b c))", func(b [4]int64) int64 { return b[2] - b[0] + b[1]*b[1] + b[1] - b[2] }},
	{"(if (= a b) (- a c) (- c a))", func(b [4]int64) int64 {
		if b[0] == b[1] {
			return b[0] - b[2]
		}
		return b[2] - b[0]
	}},
}

func c11(r *rep.Run) {
	r.SetBudget(300e9)
	if r.Thorough() {
		r.SetBudget(1800e9)
	}
	r.Rule = "(1) explicit-state BFS over registration histories: initial states = every injective pre-population of <= 3 of the names {a,b,c} with keys from {-32768,-1,0,1,2,3,255,256,32767}; transitions = the real GetOrRegisterKey(name) for name in {a,b,c,d}; states (key maps) are deduplicated canonically; invariants on every transition: returned key = stored key, no existing assignment changes, the map stays injective. Scaled families: maps pre-populated with keys 1..n (n around 64, 128, 256 and every n <= 70, with and without one hole) followed by three registrations. (2) for every reached layout in which a..d are all registered x {undefined-variable mode off,on}: compile the positional expression (+ (* a 1) (* b 10) (* c 100) (* d 1000)) and evaluate it through NewCtxFromVars (library picks slice or map fetcher), NewMapVarFetcher, NewSliceVarFetcher (when the layout permits) and the package-level Eval with ExtendConf + extra unrelated bindings; registration also through RegVarAndOp, alone and in one or two batches on top of every injective pre-keying of <= 2 of {a, z, e2} with keys from {-1, 0..10, 255, 256}. (3) variable names that resemble literals/keywords/operators (True, FALSE, T, nil, fi, mod, in, ...) and the one-node infix program (a lone variable) under 7 keys x registered / undefined-variable mode / both, bound to an int, both booleans and a string; (3b) contexts built BETWEEN registrations on one config (every ordered triple of distinct keys from {-3,0,1,2,7,255,256,300}, explicit writes and GetOrRegisterKey); (4) every convertible Go type named in the statement as the bound value, through each fetcher constructor. Oracle: arithmetic identity / normalised value. non-trivial = layouts with a key outside 0..255 or with a hole below the largest key"
	r.Assume = []string{"keys are drawn from a boundary alphabet of the int16 range, not all 65536 values", "names a..d stand for arbitrary distinct identifiers"}

	keys := []eval.VariableKey{-32768, -1, 0, 1, 2, 3, 255, 256, 32767}
	// initial states
	var init []c11layout
	init = append(init, c11layout{})
	names3 := []string{"a", "b", "c"}
	var rec func(i int, cur c11layout)
	rec = func(i int, cur c11layout) {
		if i == len(names3) {
			if len(cur) > 0 {
				init = append(init, cur.clone())
			}
			return
		}
		rec(i+1, cur) // name absent
		for _, k := range keys {
			used := false
			for _, v := range cur {
				if v == k {
					used = true
				}
			}
			if used {
				continue
			}
			cur[names3[i]] = k
			rec(i+1, cur)
			delete(cur, names3[i])
		}
	}
	rec(0, c11layout{})
	r.Cov["initial_layouts"] = len(init)

	// BFS
	type node struct {
		l    c11layout
		hist []string
	}
	seen := map[string]bool{}
	var frontier []node
	for _, l := range init {
		if !seen[l.key()] {
			seen[l.key()] = true
			frontier = append(frontier, node{l, []string{"init{" + l.key() + "}"}})
		}
	}
	var transitions int64
	var complete []c11layout
	depth := 0
	for len(frontier) > 0 {
		var next []node
		for _, n := range frontier {
			if len(n.l) == 4 {
				complete = append(complete, n.l)
			}
			for _, name := range c11Names {
				nl, _ := c11Register(r, n.l, name, n.hist)
				transitions++
				if k := nl.key(); !seen[k] {
					seen[k] = true
					next = append(next, node{nl, append(append([]string{}, n.hist...), "GetOrRegisterKey("+name+")")})
				}
			}
		}
		frontier = next
		depth++
	}
	r.Cov["bfs_states"] = len(seen)
	r.Cov["bfs_transitions"] = transitions
	r.Cov["bfs_depth"] = depth
	r.Cov["complete_layouts"] = len(complete)
	r.Sample(3, map[string]interface{}{"history": []string{"init{a=255,c=-1}", "GetOrRegisterKey(d)", "GetOrRegisterKey(b)"}})

	// scaled families: keys 1..n, optionally with a hole, then three registrations
	var scaled int64
	var sizes []int
	for n := 0; n <= 70; n++ {
		sizes = append(sizes, n)
	}
	sizes = append(sizes, 126, 127, 128, 129, 130, 254, 255, 256, 257, 258, 300, 1000)
	if r.Thorough() {
		for n := 71; n <= 300; n++ {
			sizes = append(sizes, n)
		}
		sizes = append(sizes, 4095, 4096, 4097, 32766)
	}
	for _, n := range sizes {
		holes := []int{0}
		if n >= 2 {
			holes = append(holes, 1, n/2, n-1, n)
		}
		for _, hole := range holes {
			for _, base := range []int{1, 0} { // keys starting at 1 (the allocator's own pattern) or at 0
				l := c11layout{}
				for i := 0; i < n; i++ {
					k := i + base
					if hole != 0 && k == hole {
						continue
					}
					l[fmt.Sprintf("v%d", i)] = eval.VariableKey(k)
				}
				hist := []string{fmt.Sprintf("init{keys %d..%d hole=%d}", base, base+n-1, hole)}
				cur := l
				for _, name := range []string{"a", "b", "c"} {
					cur, _ = c11Register(r, cur, name, hist)
					hist = append(hist, "GetOrRegisterKey("+name+")")
					transitions++
					scaled++
				}
				// and a variable reads its own value in that layout
				if n <= 300 {
					c11EvalLayout(r, cur, hist, false, &scaled)
				}
			}
		}
	}
	r.Cov["scaled_family_transitions"] = scaled

	// (2) evaluate under every complete layout
	var evals, nontrivial int64
	r.ParallelFor(len(complete), func(w, i int) {
		l := complete[i]
		r.Note(w, l.key())
		nt := false
		maxK := eval.VariableKey(-32768)
		for _, v := range l {
			if v < 0 || v > 255 {
				nt = true
			}
			if v > maxK {
				maxK = v
			}
		}
		if int(maxK) > len(l) {
			nt = true
		}
		if nt {
			atomic.AddInt64(&nontrivial, 1)
		}
		hist := []string{"layout{" + l.key() + "}"}
		c11EvalLayout(r, l, hist, false, &evals)
		c11EvalLayout(r, l, hist, true, &evals)
		// mixed: a, b, c registered under this layout, d bound but NOT registered
		// (resolved by name next to registered variables)
		{
			l3 := c11layout{}
			for k, v := range l {
				if k != "d" {
					l3[k] = v
				}
			}
			c11EvalLayout(r, l3, []string{"layout{" + l3.key() + "} + d bound but unregistered"}, true, &evals)
		}
		if i%301 == 0 {
			r.Sample(10, map[string]interface{}{"layout": l.key()})
		}
	})
	// pure undefined-variable mode: no name is registered, every variable is resolved by name
	for _, b := range c11Bindings {
		vals := map[string]interface{}{"a": b[0], "b": b[1], "c": b[2], "d": b[3]}
		for _, optOff := range []bool{false, true} {
			cfg := eval.NewConfig(eval.EnableUndefinedVariable)
			if optOff {
				eval.Optimizations(false)(cfg)
			}
			srcs := []string{c11Expr}
			wants := []int64{b[0] + 10*b[1] + 100*b[2] + 1000*b[3]}
			for _, pr := range c11Pairs {
				srcs = append(srcs, pr.src)
				wants = append(wants, pr.want(b))
			}
			for i, src := range srcs {
				e, err := eval.Compile(cfg, src)
				if err != nil {
					r.Violate("compile", "undef", sprintf("%s does not compile in undefined-variable mode: %v", src, err), nil)
					continue
				}
				for _, mode := range []string{"Eval", "TryEval"} {
					var got eval.Value
					var gerr error
					p, site := drive.Fence(func() {
						ctx := eval.NewCtxFromVars(cfg, vals)
						if mode == "Eval" {
							got, gerr = e.Eval(ctx)
						} else {
							got, gerr = e.TryEval(ctx)
						}
					})
					atomic.AddInt64(&evals, 1)
					if p != nil {
						r.Violate("eval-panic", site+"undef", sprintf("%s of %s in undefined-variable mode panics: %v", mode, src, p), nil)
					} else if gerr != nil || got != eval.Value(wants[i]) {
						r.Violate("wrong-variable", "undef"+mode, sprintf("%s of %s with no registered names (optimisations off: %v), binding %v: %v/%v instead of %d", mode, src, optOff, b, got, gerr, wants[i]), nil)
					}
				}
			}
		}
	}
	c11RegVarAndOp(r, &evals)
	c11Types(r, &evals)
	c11SpecialNames(r, &evals)
	c11InterleavedContexts(r, &evals)
	r.Add(int64(len(seen)), transitions+evals, evals, evals+transitions, nontrivial)
	r.Finish()
}

var c11Bindings = [][4]int64{{1, 2, 3, 4}, {9, 0, 7, 5}, {0, 0, 0, 1}}

// c11EvalLayout compiles the positional expression under layout l and
// evaluates it through every context constructor.
func c11EvalLayout(r *rep.Run, l c11layout, hist []string, undef bool, n *int64) {
	if !has(l, "a") || !has(l, "b") || !has(l, "c") {
		return
	}
	cfg := eval.NewConfig()
	for k, v := range l {
		cfg.VariableKeyMap[k] = v
	}
	if undef {
		cfg.CompileOptions[eval.AllowUndefinedVariable] = true
	}
	expr := c11Expr
	if !has(l, "d") {
		if !undef {
			expr = "(+ (* a 1) (* b 10) (* c 100))"
		}
	}
	var e *eval.Expr
	var err error
	if p, site := drive.Fence(func() { e, err = eval.Compile(cfg, expr) }); p != nil {
		r.Violate("compile-panic", site, sprintf("Compile panics under layout {%s}: %v", l.key(), p), map[string]interface{}{"layout": l.key(), "history": hist})
		return
	}
	if err != nil {
		r.Violate("compile", "c11", sprintf("positional expression does not compile under layout {%s}: %v", l.key(), err), map[string]interface{}{"layout": l.key(), "history": hist})
		return
	}
	minK, maxK := eval.VariableKey(32767), eval.VariableKey(-32768)
	for _, v := range l {
		if v < minK {
			minK = v
		}
		if v > maxK {
			maxK = v
		}
	}
	for _, b := range c11Bindings {
		vals := map[string]interface{}{"a": b[0], "b": b[1], "c": b[2], "d": b[3], "unrelated1": int64(777), "unrelated2": int64(888)}
		// other registered names get decoy values
		for k := range l {
			if _, ok := vals[k]; !ok {
				vals[k] = int64(55555)
			}
		}
		want := b[0] + 10*b[1] + 100*b[2]
		if strings.Contains(expr, " d ") {
			want += 1000 * b[3]
		}
		type ctor struct {
			name string
			mk   func() *eval.Ctx
		}
		ctors := []ctor{
			{"NewCtxFromVars", func() *eval.Ctx { return eval.NewCtxFromVars(cfg, vals) }},
			{"NewMapVarFetcher", func() *eval.Ctx { return &eval.Ctx{VariableFetcher: eval.NewMapVarFetcher(vals)} }},
		}
		// (a key of 32767 makes NewSliceVarFetcher overflow its int16 length
		// computation; direct construction with that key is outside the
		// property, NewCtxFromVars never picks the slice fetcher there)
		if minK >= 0 && maxK < 32767 && !undef {
			ctors = append(ctors, ctor{"NewSliceVarFetcher", func() *eval.Ctx { return &eval.Ctx{VariableFetcher: eval.NewSliceVarFetcher(cfg, vals)} }})
		}
		for _, c := range ctors {
			for _, mode := range []string{"Eval", "TryEval"} {
				var got eval.Value
				var gerr error
				p, site := drive.Fence(func() {
					ctx := c.mk()
					if mode == "Eval" {
						got, gerr = e.Eval(ctx)
					} else {
						got, gerr = e.TryEval(ctx)
					}
				})
				atomic.AddInt64(n, 1)
				d := map[string]interface{}{"layout": l.key(), "history": hist, "context": c.name, "entry": mode, "undefined_mode": undef, "binding": fmt.Sprint(b), "expression": expr}
				if p != nil {
					r.Violate("eval-panic", site+c.name, sprintf("%s through %s panics under layout {%s}: %v", mode, c.name, l.key(), p), d)
					continue
				}
				if gerr != nil || got != eval.Value(want) {
					r.Violate("wrong-variable", c.name+mode, sprintf("%s through %s under layout {%s}: %v/%v instead of %d — a variable did not read the value bound to its name", mode, c.name, l.key(), got, gerr, want), d)
				}
			}
		}
		// two-variable operators, optimisations on (default) and off
		for _, pr := range c11Pairs {
			for _, optOff := range []bool{false, true} {
				cfg2 := eval.CopyConfig(cfg)
				if optOff {
					eval.Optimizations(false)(cfg2)
				}
				e2, err := eval.Compile(cfg2, pr.src)
				if err != nil {
					r.Violate("compile", "c11pair", sprintf("%s does not compile under layout {%s}: %v", pr.src, l.key(), err), nil)
					continue
				}
				for _, c := range ctors {
					for _, mode := range []string{"Eval", "TryEval"} {
						var got eval.Value
						var gerr error
						p, site := drive.Fence(func() {
							if mode == "Eval" {
								got, gerr = e2.Eval(c.mk())
							} else {
								got, gerr = e2.TryEval(c.mk())
							}
						})
						atomic.AddInt64(n, 1)
						if p != nil {
							r.Violate("eval-panic", site+c.name, sprintf("%s of %s through %s panics: %v", mode, pr.src, c.name, p), nil)
						} else if gerr != nil || got != eval.Value(pr.want(b)) {
							r.Violate("wrong-variable", "pair"+c.name+mode, sprintf("%s of %s through %s under layout {%s} (undefined mode %v, optimisations off %v): %v/%v instead of %d", mode, pr.src, c.name, l.key(), undef, optOff, got, gerr, pr.want(b)),
								map[string]interface{}{"layout": l.key(), "history": hist, "expression": pr.src, "binding": fmt.Sprint(b)})
						}
					}
				}
			}
		}
		// package-level Eval with the config extended and extra unrelated bindings
		for rep := 0; rep < 6; rep++ {
			var got eval.Value
			var gerr error
			p, site := drive.Fence(func() { got, gerr = eval.Eval(expr, vals, eval.ExtendConf(cfg)) })
			atomic.AddInt64(n, 1)
			d := map[string]interface{}{"layout": l.key(), "history": hist, "context": "eval.Eval(expr, vals, ExtendConf(cfg))", "binding": fmt.Sprint(b)}
			if p != nil {
				r.Violate("eval-panic", site+"pkg", sprintf("eval.Eval panics under layout {%s}: %v", l.key(), p), d)
				break
			}
			if gerr != nil || got != eval.Value(want) {
				r.Violate("wrong-variable", "pkgEval", sprintf("eval.Eval with ExtendConf under layout {%s}: %v/%v instead of %d", l.key(), got, gerr, want), d)
				break
			}
		}
	}
}

// c11RegVarAndOp: registration through RegVarAndOp (map iteration order
// decides the keys) and through the default path of the package-level Eval.
func c11RegVarAndOp(r *rep.Run, n *int64) {
	for rep := 0; rep < 200; rep++ {
		for _, b := range c11Bindings {
			vals := map[string]interface{}{"a": b[0], "b": b[1], "c": b[2], "d": b[3], "e1": int64(5), "e2": int64(6), "e3": int64(7),
				"op1": eval.Operator(func(*eval.Ctx, []eval.Value) (eval.Value, error) { return int64(1), nil })}
			want := b[0] + 10*b[1] + 100*b[2] + 1000*b[3]
			cfg := eval.NewConfig(eval.RegVarAndOp(vals))
			seen := map[eval.VariableKey]string{}
			for k, v := range cfg.VariableKeyMap {
				if o, dup := seen[v]; dup {
					r.Violate("register-duplicate-key", "regvarandop", sprintf("RegVarAndOp gave %q and %q the same key %d", o, k, v), map[string]interface{}{"map": fmt.Sprint(cfg.VariableKeyMap)})
				}
				seen[v] = k
			}
			if _, isVar := cfg.VariableKeyMap["op1"]; isVar {
				r.Violate("regvarandop-operator", "op", "RegVarAndOp registered an operator value as a variable", nil)
			}
			e, err := eval.Compile(cfg, c11Expr)
			if err != nil {
				r.Violate("compile", "regvarandop", sprintf("positional expression does not compile after RegVarAndOp: %v", err), nil)
				continue
			}
			got, gerr := e.Eval(eval.NewCtxFromVars(cfg, vals))
			atomic.AddInt64(n, 1)
			if gerr != nil || got != eval.Value(want) {
				r.Violate("wrong-variable", "regvarandop", sprintf("after RegVarAndOp (keys %v): %v/%v instead of %d", cfg.VariableKeyMap, got, gerr, want), map[string]interface{}{"map": fmt.Sprint(cfg.VariableKeyMap)})
			}
			got, gerr = eval.Eval(c11Expr, vals)
			atomic.AddInt64(n, 1)
			if gerr != nil || got != eval.Value(want) {
				r.Violate("wrong-variable", "pkgEvalDefault", sprintf("eval.Eval(expr, vals): %v/%v instead of %d", got, gerr, want), nil)
			}
		}
	}
	r.Sample(12, map[string]interface{}{"registration": "RegVarAndOp(map of 7 variables + 1 operator) x 200 map iteration orders"})

	// RegVarAndOp on top of EVERY pre-keyed base: injective assignments of at
	// most two of {a, z, e2} to keys around the count of names (sparse and
	// dense layouts), then one or two RegVarAndOp batches
	keys := []eval.VariableKey{-1, 0, 1, 2, 3, 4, 5, 6, 7, 8, 9, 10, 255, 256}
	names := []string{"a", "z", "e2"}
	type base map[string]eval.VariableKey
	bases := []base{{}}
	for i, n1 := range names {
		for _, k1 := range keys {
			bases = append(bases, base{n1: k1})
			for _, n2 := range names[i+1:] {
				for _, k2 := range keys {
					if k2 != k1 {
						bases = append(bases, base{n1: k1, n2: k2})
					}
				}
			}
		}
	}
	b := c11Bindings[0]
	want := b[0] + 10*b[1] + 100*b[2] + 1000*b[3]
	var layouts int64
	for _, bs := range bases {
		for rep := 0; rep < 6; rep++ {
			for batches := 1; batches <= 2; batches++ {
				first := map[string]interface{}{"a": b[0], "b": b[1], "c": b[2], "d": b[3], "e1": int64(5), "e2": int64(6), "e3": int64(7)}
				second := map[string]interface{}{}
				if batches == 2 {
					// the second batch re-mentions two names and brings three new ones
					first = map[string]interface{}{"a": b[0], "c": b[2], "e1": int64(5), "e2": int64(6)}
					second = map[string]interface{}{"b": b[1], "d": b[3], "e3": int64(7), "a": b[0], "e1": int64(5)}
				}
				pre := eval.NewConfig()
				for k, v := range bs {
					pre.VariableKeyMap[k] = v
				}
				cfg := eval.NewConfig(eval.ExtendConf(pre), eval.RegVarAndOp(first), eval.RegVarAndOp(second))
				layouts++
				d := map[string]interface{}{"pre_keyed": fmt.Sprint(map[string]eval.VariableKey(bs)), "batches": batches, "map": fmt.Sprint(cfg.VariableKeyMap)}
				seen := map[eval.VariableKey]string{}
				bad := false
				for k, v := range cfg.VariableKeyMap {
					if o, dup := seen[v]; dup {
						r.Violate("register-duplicate-key", "regvarandop-base", sprintf("RegVarAndOp on a pre-keyed config gave %q and %q the same key %d", o, k, v), d)
						bad = true
					}
					seen[v] = k
				}
				for k, v := range bs {
					if cfg.VariableKeyMap[k] != v {
						r.Violate("register-changes-key", "regvarandop-base", sprintf("RegVarAndOp changed the existing key of %q from %d to %d", k, v, cfg.VariableKeyMap[k]), d)
						bad = true
					}
				}
				if bad {
					continue
				}
				vals := map[string]interface{}{"a": b[0], "b": b[1], "c": b[2], "d": b[3], "e1": int64(5), "e2": int64(6), "e3": int64(7)}
				expr, w := c11Expr, want
				if _, ok := bs["z"]; ok {
					vals["z"] = int64(3)
					expr, w = "(+ (* a 1) (* b 10) (* c 100) (* d 1000) (* z 100000) (* e2 1000000))", want+300000+6000000
				}
				e, err := eval.Compile(cfg, expr)
				if err != nil {
					r.Violate("compile", "regvarandop-base", sprintf("positional expression does not compile after RegVarAndOp on a pre-keyed config: %v", err), d)
					continue
				}
				var got eval.Value
				var gerr error
				p, site := drive.Fence(func() { got, gerr = e.Eval(eval.NewCtxFromVars(cfg, vals)) })
				atomic.AddInt64(n, 1)
				if p != nil {
					r.Violate("panic", "regvarandop-base", sprintf("evaluation after RegVarAndOp on a pre-keyed config panics at %s: %v", site, p), d)
				} else if gerr != nil || got != eval.Value(w) {
					r.Violate("wrong-variable", "regvarandop-base", sprintf("after RegVarAndOp on a pre-keyed config (keys %v): %v/%v instead of %d", cfg.VariableKeyMap, got, gerr, w), d)
				}
			}
		}
	}
	r.Cov["regvarandop_on_prekeyed_layouts"] = layouts
}

// c11Types: every convertible Go type named in the statement, bound to a
// variable and read back through each context constructor.
func c11Types(r *rep.Run, n *int64) {
	t0 := time.Date(2021, 3, 4, 5, 6, 7, 0, time.UTC)
	tNeg := time.Date(1969, 12, 31, 23, 59, 59, 0, time.FixedZone("x", 3600))
	type tc struct {
		name  string
		val   interface{}
		probe string // expression over v that must be true
	}
	var cases []tc
	addInt := func(name string, v interface{}, want int64) {
		cases = append(cases, tc{name, v, fmt.Sprintf("(= v %d)", want)})
		cases = append(cases, tc{name + " arithmetic", v, fmt.Sprintf("(= (+ v 1) %d)", want+1)})
	}
	addInt("int", int(-7), -7)
	addInt("int", int(1<<40), 1<<40)
	addInt("int8", int8(-128), -128)
	addInt("int16", int16(-32768), -32768)
	addInt("int32", int32(2147483647), 2147483647)
	addInt("int64", int64(-9223372036854775807), -9223372036854775807)
	addInt("uint8", uint8(255), 255)
	addInt("uint16", uint16(65535), 65535)
	addInt("uint32", uint32(4294967295), 4294967295)
	addInt("uint64", uint64(1<<62), 1<<62)
	addInt("time.Time", t0, t0.Unix())
	addInt("time.Time(before epoch, zone)", tNeg, tNeg.Unix())
	addInt("time.Duration", 90*time.Second+500*time.Millisecond, 90)
	addInt("time.Duration(negative)", -3*time.Hour, -10800)
	addInt("time.Duration(200 days + 999999999ns)", 200*24*time.Hour+999999999*time.Nanosecond, 200*24*3600)
	addInt("time.Duration(max)", time.Duration(math.MaxInt64), math.MaxInt64/1000000000)
	addInt("time.Duration(min)", time.Duration(math.MinInt64), math.MinInt64/1000000000)
	addInt("time.Duration(-1ns)", -time.Nanosecond, 0)
	addInt("time.Duration(10000 days - 1ns)", 10000*24*time.Hour-time.Nanosecond, 10000*24*3600-1)
	addInt("time.Time(year 9999)", time.Date(9999, 12, 31, 23, 59, 59, 999999999, time.UTC), time.Date(9999, 12, 31, 23, 59, 59, 0, time.UTC).Unix())
	addInt("time.Time(zero value)", time.Time{}, time.Time{}.Unix())
	addInt("time.Time(before epoch, fraction)", time.Unix(-2, 5e8), -2)
	addInt("time.Time(1ns before epoch)", time.Unix(0, -1), -1)
	addInt("time.Time(year 1677)", time.Date(1677, 1, 1, 0, 0, 0, 5, time.UTC), time.Date(1677, 1, 1, 0, 0, 0, 0, time.UTC).Unix())
	addInt("time.Time(year 2263)", time.Date(2263, 1, 1, 0, 0, 0, 5, time.UTC), time.Date(2263, 1, 1, 0, 0, 0, 0, time.UTC).Unix())
	addInt("time.Time(year 1)", time.Date(1, 1, 1, 0, 0, 0, 0, time.UTC), -62135596800)
	cases = append(cases,
		tc{"[]int", []int{3, -4, 5}, "(and (in -4 v) (not (in 4 v)) (overlap v (9 5)))"},
		tc{"[]int32", []int32{3, -4, 5}, "(and (in -4 v) (not (in 4 v)) (overlap v (9 5)))"},
		tc{"[]int64", []int64{3, -4, 5}, "(and (in -4 v) (not (in 4 v)) (overlap v (9 5)))"},
		tc{"[]int empty", []int{}, "(not (in 1 v))"},
		tc{"[]string", []string{"x", "y"}, `(and (in "y" v) (not (in "z" v)))`},
		tc{"string", "hello world", `(= v "hello world")`},
		tc{"bool", true, "(and v (= v true))"},
		tc{"bool false", false, "(not v)"},
	)
	for _, c := range cases {
		for _, key := range []eval.VariableKey{0, 1, 200, 255, 256, -1, 32767} {
			for _, undef := range []bool{false, true} {
				cfg := eval.NewConfig()
				cfg.VariableKeyMap["v"] = key
				cfg.VariableKeyMap["w"] = 2
				// registered but never bound (more names than bindings)
				cfg.VariableKeyMap["unbound1"] = 3
				cfg.VariableKeyMap["unbound2"] = 4
				cfg.VariableKeyMap["unbound3"] = 5
				if undef {
					cfg = eval.NewConfig(eval.EnableUndefinedVariable)
				}
				e, err := eval.Compile(cfg, c.probe)
				if err != nil {
					r.Violate("compile", "types", sprintf("probe %s does not compile: %v", c.probe, err), nil)
					continue
				}
				vals := map[string]interface{}{"v": c.val, "w": int64(123456)}
				ctxs := map[string]func() *eval.Ctx{
					"NewCtxFromVars":   func() *eval.Ctx { return eval.NewCtxFromVars(cfg, vals) },
					"NewMapVarFetcher": func() *eval.Ctx { return &eval.Ctx{VariableFetcher: eval.NewMapVarFetcher(vals)} },
				}
				if key >= 0 && key < 32767 && !undef {
					ctxs["NewSliceVarFetcher"] = func() *eval.Ctx { return &eval.Ctx{VariableFetcher: eval.NewSliceVarFetcher(cfg, vals)} }
				}
				for cn, mk := range ctxs {
					var got eval.Value
					var gerr error
					p, site := drive.Fence(func() { got, gerr = e.Eval(mk()) })
					atomic.AddInt64(n, 1)
					d := map[string]interface{}{"go_type": c.name, "value": fmt.Sprint(c.val), "probe": c.probe, "key": int(key), "context": cn, "undefined_mode": undef}
					if p != nil {
						r.Violate("eval-panic", site+cn, sprintf("%s bound to a variable with key %d through %s panics: %v", c.name, key, cn, p), d)
						continue
					}
					if gerr != nil || got != eval.Value(true) {
						r.Violate("normalisation", c.name+cn, sprintf("a %s value bound to v (key %d, %s) is not read back normalised: probe %s gives %v/%v", c.name, key, cn, c.probe, got, gerr), d)
					}
				}
				// the package-level entry point
				got, gerr := eval.Eval(c.probe, vals)
				atomic.AddInt64(n, 1)
				if gerr != nil || got != eval.Value(true) {
					r.Violate("normalisation", c.name+"pkg", sprintf("eval.Eval with a %s value: probe %s gives %v/%v", c.name, c.probe, got, gerr), nil)
				}
			}
		}
	}
	// ToValueMap / UnifyType agree with the same normalisation
	for _, c := range cases {
		m := eval.ToValueMap(map[string]interface{}{"v": c.val})
		if fmt.Sprintf("%T", m["v"]) != fmt.Sprintf("%T", eval.UnifyType(c.val)) {
			r.Violate("normalisation", "tovaluemap", sprintf("ToValueMap and UnifyType disagree on %s", c.name), nil)
		}
	}
	r.Cov["type_cases"] = len(cases)
	r.Sample(14, map[string]interface{}{"type_case": "uint64(1<<62) bound to v under key 256 via NewCtxFromVars, probe (= v 4611686018427387904)"})
}

// c11SpecialNames: variable NAMES that resemble literals, keywords or operators, and
// the one-node program (a lone variable, infix notation), under key layouts
// of every kind and in undefined-variable mode, through every context
// constructor: a variable evaluates to the value bound to its name.
func c11SpecialNames(r *rep.Run, n *int64) {
	names := []string{"True", "TRUE", "False", "FALSE", "tRuE", "T", "F", "nil", "fi", "DNE", "mod", "version", "in", "not", "x1", "_", "a.b", "名前", "slot.0", "geo.3d_x", "a.b.c", "x.y_1", "_x", "x_", "a1.b2", "q.2x"}
	// identifiers whose UTF-8 encodings contain EVERY continuation byte value
	// (0x80..0xBF as second byte of the Latin-1 letters U+00C0..U+00FF, among
	// them 0x85 and 0xA0, which are white space when read as a code point) and
	// a few three-byte letters with such bytes
	for cp := rune(0xC0); cp <= 0xFF; cp++ {
		if cp == 0xD7 || cp == 0xF7 {
			continue // the multiplication and division signs are not letters
		}
		names = append(names, "x"+string(cp), string(cp)+"y")
	}
	names = append(names, "città", "Ångström", "价格", "你好", "x.qualità.y", "格", "ㅅa")
	keys := []eval.VariableKey{-1, 0, 1, 7, 255, 256, 32767}
	for _, name := range names {
		for _, key := range keys {
			for mode := 0; mode < 3; mode++ { // 0 registered, 1 undefined-variable mode (unregistered), 2 registered + undefined allowed
				// a name that is also an operator is a variable only where the
				// grammar leaves no doubt: registered, in a prefix operand position
				opNamed := ref.IsBuiltin(name)
				if opNamed && mode == 1 {
					continue
				}
				cfg := eval.NewConfig()
				if mode != 1 {
					cfg.VariableKeyMap[name] = key
					cfg.VariableKeyMap["other"] = key + 1 - 2*eval.VariableKey(boolInt(key == 32767))
				}
				if mode != 0 {
					cfg.CompileOptions[eval.AllowUndefinedVariable] = true
				}
				for _, bind := range []interface{}{int64(20), false, true, "txt"} {
					vals := map[string]interface{}{name: bind, "other": int64(1)}
					type prog struct {
						src   string
						infix bool
						want  interface{}
						ok    bool
					}
					progs := []prog{{"(= " + name + " " + name + ")", false, true, true}, {name, true, bind, true}, {"(" + name + ")", true, bind, true}}
					if i, isInt := bind.(int64); isInt {
						progs = append(progs, prog{"(+ " + name + " 1 other)", false, i + 2, true}, prog{name + " + other", true, i + 1, true})
					}
					if b, isBool := bind.(bool); isBool {
						progs = append(progs, prog{"(if " + name + " 1 2)", false, map[bool]int64{true: 1, false: 2}[b], true}, prog{"(not " + name + ")", false, !b, true}, prog{"!" + name, true, !b, true})
					}
					if str, isStr := bind.(string); isStr {
						progs = append(progs, prog{"(= " + name + " \"" + str + "\")", false, true, true})
					}
					for _, pg := range progs {
						c2 := eval.CopyConfig(cfg)
						if pg.infix {
							if opNamed || strings.Contains(name, ".") || name == "名前" || name == "_" {
								continue // identifier shapes the infix lexer is not asked about here
							}
							c2.CompileOptions[eval.InfixNotation] = true
						}
						e, err := eval.Compile(c2, pg.src)
						d := map[string]interface{}{"source": pg.src, "variable": name, "key": key, "mode": []string{"registered", "undefined-variable mode", "registered, undefined allowed"}[mode], "bound_to": fmt.Sprintf("%T(%v)", bind, bind)}
						if err != nil {
							r.Violate("compile", "names"+name, sprintf("%q with the variable %s does not compile: %v", pg.src, name, err), d)
							continue
						}
						ctxs := map[string]func() *eval.Ctx{
							"NewCtxFromVars":   func() *eval.Ctx { return eval.NewCtxFromVars(c2, vals) },
							"NewMapVarFetcher": func() *eval.Ctx { return &eval.Ctx{VariableFetcher: eval.NewMapVarFetcher(vals)} },
						}
						for cname, mk := range ctxs {
							for entry := 0; entry < 2; entry++ {
								var v eval.Value
								var eerr error
								p, site := drive.Fence(func() {
									if entry == 0 {
										v, eerr = e.Eval(mk())
									} else {
										v, eerr = e.TryEval(mk())
									}
								})
								atomic.AddInt64(n, 1)
								if p != nil || eerr != nil || v != eval.Value(pg.want) {
									r.Violate("wrong-variable", "names"+name+pg.src, sprintf("%s of %q with %s = %v gives %v/%v (panic %v at %s), expected %v", []string{"Eval", "TryEval"}[entry], pg.src, name, bind, v, eerr, p, site, pg.want), func() map[string]interface{} { d["context"] = cname; return d }())
								}
							}
						}
					}
				}
			}
		}
	}
}

// c11InterleavedContexts: contexts are created BETWEEN registrations on one
// config object: register a (explicit key k1, written into the exported map),
// build a context and evaluate; register b (k2), build another context and
// evaluate; register c (k3 or GetOrRegisterKey), again. Every ordered triple
// of distinct keys from a set that crosses the slice/map fetcher boundary.
func c11InterleavedContexts(r *rep.Run, n *int64) {
	keys := []eval.VariableKey{-3, 0, 1, 2, 7, 255, 256, 300}
	exprs := []string{"(+ (* a 1) 0)", "(+ (* a 1) (* b 10))", "(+ (* a 1) (* b 10) (* c 100))"}
	names := []string{"a", "b", "c"}
	var hist int64
	for _, k1 := range keys {
		for _, k2 := range keys {
			for _, k3 := range keys {
				if k1 == k2 || k2 == k3 || k1 == k3 {
					continue
				}
				for undef := 0; undef < 2; undef++ {
					for lastVia := 0; lastVia < 2; lastVia++ { // 0: explicit key, 1: GetOrRegisterKey
						cfg := eval.NewConfig()
						if undef == 1 {
							cfg.CompileOptions[eval.AllowUndefinedVariable] = true
						}
						ks := []eval.VariableKey{k1, k2, k3}
						vals := map[string]interface{}{}
						var want int64
						hist++
						for step := 0; step < 3; step++ {
							if step == 2 && lastVia == 1 {
								eval.GetOrRegisterKey(cfg, names[step])
							} else {
								cfg.VariableKeyMap[names[step]] = ks[step]
							}
							vals[names[step]] = int64(step + 2)
							w := int64(step + 2)
							for x := 0; x < step; x++ {
								w *= 10
							}
							want += w
							d := map[string]interface{}{"keys_in_order_of_registration": fmt.Sprint(ks), "last_via_GetOrRegisterKey": lastVia == 1, "allow_undefined": undef == 1, "step": step + 1, "map": fmt.Sprint(cfg.VariableKeyMap)}
							e, err := eval.Compile(cfg, exprs[step])
							if err != nil {
								r.Violate("compile", "interleaved", sprintf("%s does not compile after registering %s: %v", exprs[step], names[step], err), d)
								break
							}
							ctxs := map[string]func() *eval.Ctx{
								"NewCtxFromVars": func() *eval.Ctx { return eval.NewCtxFromVars(cfg, vals) },
							}
							minK, maxK := eval.VariableKey(32767), eval.VariableKey(-32768)
							for _, v := range cfg.VariableKeyMap {
								if v < minK {
									minK = v
								}
								if v > maxK {
									maxK = v
								}
							}
							if minK >= 0 && maxK < 256 {
								ctxs["NewSliceVarFetcher"] = func() *eval.Ctx { return &eval.Ctx{VariableFetcher: eval.NewSliceVarFetcher(cfg, vals)} }
							}
							for cname, mk := range ctxs {
								var v eval.Value
								var eerr error
								p, site := drive.Fence(func() { v, eerr = e.Eval(mk()) })
								atomic.AddInt64(n, 1)
								if p != nil || eerr != nil || v != eval.Value(want) {
									d["context"] = cname
									r.Violate("wrong-variable", "interleaved"+cname, sprintf("after a context had been built from this config and %s was registered next, %s evaluates %s to %v/%v (panic %v at %s), expected %d", names[step], cname, exprs[step], v, eerr, p, site, want), d)
								}
							}
						}
					}
				}
			}
		}
	}
	r.Cov["interleaved_context_histories"] = hist
}
