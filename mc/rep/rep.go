// Package rep is the reporting side of the checker: evidence files, violation
// replays, known findings, the parallel work runner and the hang watchdog.
package rep

import (
	"crypto/sha1"
	"encoding/json"
	"fmt"
	"os"
	"path/filepath"
	"runtime"
	"sort"
	"strconv"
	"sync"
	"sync/atomic"
	"syscall"
	"time"
)

var Root = "/verif" // overridden by VERIF_ROOT (used by background runs from a snapshot)

// Out is where evidence/ and replays/ are written (VERIF_OUT; default Root).
// Development runs against deliberately broken copies of the library use it
// so that they never overwrite the evidence of the real tree.
var Out = ""

func init() {
	if r := os.Getenv("VERIF_ROOT"); r != "" {
		Root = r
	}
	Out = Root
	if o := os.Getenv("VERIF_OUT"); o != "" {
		Out = o
	}
}

type Violation struct {
	Property string      `json:"property"`
	Kind     string      `json:"kind"`
	Message  string      `json:"message"`
	Case     interface{} `json:"case"`
	Path     string      `json:"-"`
}

type Finding struct {
	ID       string `json:"id"`
	Property string `json:"property"`
	Status   string `json:"status"` // "open" | "fixed"
	Commit   string `json:"commit,omitempty"`
	What     string `json:"what"`
	Match    string `json:"match,omitempty"`
}

type Run struct {
	Prop     string
	Tier     string
	Seed     int64
	Start    time.Time
	Deadline time.Time
	Workers  int

	mu         sync.Mutex
	viol       map[string]*Violation // by dedupe key
	violOrder  []string
	violTotal  int64
	known      map[string]*Finding
	knownHit   map[string]int64
	samples    []interface{}
	Assume     []string
	Cov        map[string]interface{}
	Exhaustive bool
	capNote    []string

	States      int64 // distinct canonical cases / scheduler or BFS states
	Transitions int64 // implementation steps observed
	Traces      int64 // executions whose trace/outcome was compared with the model
	Evals       int64 // executions of the implementation
	Nontrivial  int64
	Rule        string

	// watchdog
	external int32 // >0 while waiting for a child process
	cur      []atomic.Value
	tick     []uint64
	busy     []int32
}

func NewRun(prop, tier string) *Run {
	seed, _ := strconv.ParseInt(os.Getenv("VERIF_SEED"), 10, 64)
	w := runtime.NumCPU()
	if s := os.Getenv("VERIF_WORKERS"); s != "" {
		if n, err := strconv.Atoi(s); err == nil && n > 0 {
			w = n
		}
	}
	r := &Run{Prop: prop, Tier: tier, Seed: seed, Start: time.Now(), Workers: w,
		viol: map[string]*Violation{}, known: map[string]*Finding{}, knownHit: map[string]int64{},
		Cov: map[string]interface{}{}, Exhaustive: true}
	r.cur = make([]atomic.Value, w)
	r.tick = make([]uint64, w)
	r.busy = make([]int32, w)
	// replays of earlier runs of this property are stale
	if old, _ := filepath.Glob(filepath.Join(Out, "replays", prop+"-*.json")); len(old) > 0 {
		for _, f := range old {
			os.Remove(f)
		}
	}
	if tier == "thorough" && Stall < 900*time.Second {
		Stall = 900 * time.Second // larger units of work in the thorough tier
	}
	r.loadKnown()
	go r.watchdog()
	return r
}

func (r *Run) Thorough() bool { return r.Tier == "thorough" }

// SetBudget sets the internal deadline; enumeration loops poll Expired and
// stop early, which is reported as exhaustive:false (never as a failure).
func (r *Run) SetBudget(d time.Duration) {
	if s := os.Getenv("VERIF_BUDGET_S"); s != "" {
		if n, err := strconv.Atoi(s); err == nil {
			d = time.Duration(n) * time.Second
		}
	}
	r.Deadline = r.Start.Add(d)
}

func (r *Run) Expired() bool {
	return !r.Deadline.IsZero() && time.Now().After(r.Deadline)
}

// Capped records that a bound/deadline cut the enumeration short.
func (r *Run) Capped(note string) {
	r.mu.Lock()
	defer r.mu.Unlock()
	r.Exhaustive = false
	for _, n := range r.capNote {
		if n == note {
			return
		}
	}
	r.capNote = append(r.capNote, note)
}

func (r *Run) loadKnown() {
	b, err := os.ReadFile(filepath.Join(Root, "known_findings.json"))
	if err != nil {
		return
	}
	var fs struct {
		Findings []Finding `json:"findings"`
	}
	if err := json.Unmarshal(b, &fs); err != nil {
		fmt.Fprintf(os.Stderr, "known_findings.json: %v\n", err)
		os.Exit(2)
	}
	for i := range fs.Findings {
		f := fs.Findings[i]
		if f.Status == "open" && f.Property == r.Prop {
			r.known[f.ID] = &f
		}
	}
}

// KnownOpen tells whether the committed known-findings file lists id as an
// open finding of this property. Checks use it to route a violation that
// matches the finding's predicate to a KNOWN-FINDING line.
func (r *Run) KnownOpen(id string) bool {
	_, ok := r.known[id]
	return ok
}

func (r *Run) HitKnown(id string) {
	r.mu.Lock()
	r.knownHit[id]++
	r.mu.Unlock()
}

// Sample records an actual explored case for the evidence file (first n kept).
func (r *Run) Sample(max int, s interface{}) {
	r.mu.Lock()
	if len(r.samples) < max {
		r.samples = append(r.samples, s)
	}
	r.mu.Unlock()
}

func (r *Run) NumSamples() int {
	r.mu.Lock()
	defer r.mu.Unlock()
	return len(r.samples)
}

// Violate records a violation; key dedupes (one replay per distinct key, at
// most 20 distinct kept in full).
func (r *Run) Violate(kind, key, msg string, c interface{}) {
	atomic.AddInt64(&r.violTotal, 1)
	r.mu.Lock()
	defer r.mu.Unlock()
	k := kind + "|" + key
	if _, ok := r.viol[k]; ok {
		return
	}
	if len(r.viol) >= 20 {
		return
	}
	r.viol[k] = &Violation{Property: r.Prop, Kind: kind, Message: msg, Case: c}
	r.violOrder = append(r.violOrder, k)
}

func (r *Run) Violations() int64 { return atomic.LoadInt64(&r.violTotal) }

func (r *Run) Add(states, transitions, traces, evals, nontrivial int64) {
	atomic.AddInt64(&r.States, states)
	atomic.AddInt64(&r.Transitions, transitions)
	atomic.AddInt64(&r.Traces, traces)
	atomic.AddInt64(&r.Evals, evals)
	atomic.AddInt64(&r.Nontrivial, nontrivial)
}

// ---- parallel runner + watchdog ----

// Stall is how long one unit of work (one program under all its
// configurations and bindings: normally milliseconds) may run before the
// watchdog declares a hang. It is deliberately huge: it only ever fires when
// the engine loops forever or blocks.
var Stall = 300 * time.Second

// Tick records progress of whichever worker calls it (all workers' clocks are
// advanced: it is only used inside long single units of work).
func (r *Run) Tick() {
	for w := range r.tick {
		atomic.AddUint64(&r.tick[w], 1)
	}
}

// Note sets the description of what worker w is doing (for hang reports).
func (r *Run) Note(w int, desc interface{}) {
	r.cur[w].Store(desc)
	atomic.AddUint64(&r.tick[w], 1)
}

func (r *Run) watchdog() {
	last := make([]uint64, len(r.tick))
	since := make([]time.Time, len(r.tick))
	for i := range since {
		since[i] = time.Now()
	}
	// sequential phases (outside ParallelFor) are watched through the process's
	// own CPU time: a main goroutine that is BLOCKED (a channel send nobody
	// receives, a lock) burns none
	cpuAt, cpuSince := processCPU(), time.Now()
	for {
		time.Sleep(2 * time.Second)
		now := time.Now()
		anyBusy := false
		for w := range r.busy {
			if atomic.LoadInt32(&r.busy[w]) != 0 {
				anyBusy = true
			}
		}
		if c := processCPU(); anyBusy || atomic.LoadInt32(&r.external) != 0 || c-cpuAt > 500*time.Millisecond {
			cpuAt, cpuSince = c, now
		} else if now.Sub(cpuSince) > Stall {
			desc := r.lastNote()
			r.Violate("hang", "sequential:"+fmt.Sprint(desc), fmt.Sprintf("no progress for %v in a sequential phase of the check: the engine blocks on this case (the process used no CPU)", Stall), desc)
			r.Capped("aborted by hang watchdog")
			r.Finish()
		}
		// an outer guard for everything else (a busy loop on the main goroutine)
		if !r.Deadline.IsZero() && now.Sub(r.Start) > 6*r.Deadline.Sub(r.Start) {
			r.Capped(fmt.Sprintf("the run was cut off at six times its time budget (last note: %v)", r.lastNote()))
			r.Finish()
		}
		for w := range r.tick {
			t := atomic.LoadUint64(&r.tick[w])
			if t != last[w] || atomic.LoadInt32(&r.busy[w]) == 0 {
				last[w], since[w] = t, now
				continue
			}
			if now.Sub(since[w]) > Stall {
				desc := r.cur[w].Load()
				r.Violate("hang", fmt.Sprint(desc), fmt.Sprintf("no progress for %v: the engine does not terminate (or blocks) on this case", Stall), desc)
				r.Capped("aborted by hang watchdog")
				r.Finish()
			}
		}
	}
}

// External runs fn while the check legitimately waits for something outside
// this process (a child process building or running): the sequential-phase
// watchdog is suspended meanwhile.
func (r *Run) External(fn func()) {
	atomic.AddInt32(&r.external, 1)
	defer atomic.AddInt32(&r.external, -1)
	fn()
}

func processCPU() time.Duration {
	var ru syscall.Rusage
	if err := syscall.Getrusage(syscall.RUSAGE_SELF, &ru); err != nil {
		return 0
	}
	return time.Duration(ru.Utime.Nano() + ru.Stime.Nano())
}

// lastNote is the most recent Note of any worker slot (what the check was
// working on).
func (r *Run) lastNote() interface{} {
	for w := range r.cur {
		if d := r.cur[w].Load(); d != nil {
			return d
		}
	}
	return "no note recorded"
}

// ParallelFor runs fn(worker, i) for i in [0,n) on all workers, handing out
// indices in order (smallest programs first). It stops handing out work when
// the deadline passes and returns the number of indices completed in order.
func (r *Run) ParallelFor(n int, fn func(w, i int)) int {
	var next int64 = -1
	var wg sync.WaitGroup
	var expired int32
	for w := 0; w < r.Workers; w++ {
		wg.Add(1)
		go func(w int) {
			defer wg.Done()
			atomic.StoreInt32(&r.busy[w], 1)
			defer atomic.StoreInt32(&r.busy[w], 0)
			for {
				i := int(atomic.AddInt64(&next, 1))
				if i >= n {
					return
				}
				if i%16 == 0 && r.Expired() {
					atomic.StoreInt32(&expired, 1)
				}
				if atomic.LoadInt32(&expired) == 1 {
					atomic.AddInt64(&next, -1)
					return
				}
				atomic.AddUint64(&r.tick[w], 1)
				fn(w, i)
			}
		}(w)
	}
	wg.Wait()
	done := int(atomic.LoadInt64(&next)) + 1
	if done > n {
		done = n
	}
	if atomic.LoadInt32(&expired) == 1 {
		r.Capped(fmt.Sprintf("deadline reached after %d of %d work items", done, n))
	}
	return done
}

// ---- finishing ----

var finishOnce sync.Once

// Finish writes the evidence file and replays, prints the verdict lines and
// exits the process: 0 if the property held on everything explored, 1 on a
// violation.
func (r *Run) Finish() {
	finishOnce.Do(func() { r.finish() })
	select {} // another goroutine is finishing
}

func (r *Run) finish() {
	r.mu.Lock()
	defer r.mu.Unlock()
	wall := time.Since(r.Start).Seconds()

	os.MkdirAll(filepath.Join(Out, "replays"), 0o755)
	os.MkdirAll(filepath.Join(Out, "evidence"), 0o755)

	ids := make([]string, 0, len(r.knownHit))
	for id := range r.knownHit {
		ids = append(ids, id)
	}
	sort.Strings(ids)
	for _, id := range ids {
		fmt.Printf("KNOWN-FINDING: property=%s %s — %s (matched %d cases)\n", r.Prop, id, r.known[id].What, r.knownHit[id])
	}
	// an open finding that no longer reproduces is worth a note (not an alarm)
	for id := range r.known {
		if r.knownHit[id] == 0 {
			fmt.Printf("note: open known finding %s did not reproduce in this run\n", id)
		}
	}

	for _, k := range r.violOrder {
		v := r.viol[k]
		b, _ := json.MarshalIndent(v, "", " ")
		h := sha1.Sum(b)
		v.Path = filepath.Join(Out, "replays", fmt.Sprintf("%s-%x.json", r.Prop, h[:6]))
		os.WriteFile(v.Path, b, 0o644)
	}

	cov := map[string]interface{}{}
	for k, v := range r.Cov {
		cov[k] = v
	}
	st, tr := r.States, r.Transitions
	cov["states"] = st
	cov["transitions"] = tr
	cov["traces_validated_against_impl"] = r.Traces
	cov["evaluations"] = r.Evals
	cov["distinct_nontrivial"] = r.Nontrivial
	cov["rule"] = r.Rule
	cov["exhaustive"] = r.Exhaustive
	if len(r.capNote) > 0 {
		cov["caps_hit"] = r.capNote
	}
	if len(r.samples) == 0 {
		r.samples = append(r.samples, "no case was explored")
	}
	cov["samples"] = r.samples
	if len(r.knownHit) > 0 {
		cov["known_findings_matched"] = r.knownHit
	}
	ev := map[string]interface{}{
		"property_id": r.Prop,
		"tier":        r.Tier,
		"seed":        r.Seed,
		"level":       "model_checking",
		"coverage":    cov,
		"assumptions": r.Assume,
		"wall_s":      wall,
		"violations":  r.violTotal,
	}
	if r.Assume == nil {
		ev["assumptions"] = []string{}
	}
	b, _ := json.MarshalIndent(ev, "", " ")
	if err := os.WriteFile(filepath.Join(Out, "evidence", r.Prop+".json"), b, 0o644); err != nil {
		fmt.Fprintf(os.Stderr, "cannot write evidence: %v\n", err)
		os.Exit(2)
	}

	fmt.Printf("%s %s: states=%d transitions=%d traces_validated=%d evaluations=%d nontrivial=%d exhaustive=%v wall=%.1fs\n",
		r.Prop, r.Tier, st, tr, r.Traces, r.Evals, r.Nontrivial, r.Exhaustive, wall)
	for _, n := range r.capNote {
		fmt.Printf("cap: %s\n", n)
	}
	if len(r.violOrder) == 0 {
		fmt.Printf("OK property=%s held on everything explored\n", r.Prop)
		os.Exit(0)
	}
	for _, k := range r.violOrder {
		v := r.viol[k]
		fmt.Printf("  [%s] %s\n", v.Kind, v.Message)
		fmt.Printf("VIOLATION property=%s replay=%s\n", r.Prop, v.Path)
	}
	fmt.Printf("%d violating cases in total (%d distinct kept)\n", r.violTotal, len(r.violOrder))
	os.Exit(1)
}
