#!/bin/bash
# usage: run.sh <ID> [quick|thorough]   |   run.sh replay <file>   |   run.sh build
# Rebuilds the checker against /repo's CURRENT working tree (the module
# replaces github.com/onheap/eval with /repo) and runs it.
# VERIF_REPO=<dir> (development aid only, never used by MANIFEST commands)
# builds against another checkout of the library instead of /repo.
set -u
export GOFLAGS=-mod=mod GOPROXY=off GOSUMDB=off GOTOOLCHAIN=local CGO_ENABLED=0
ROOT="$(cd "$(dirname "$0")" && pwd)"
export VERIF_ROOT="${VERIF_ROOT:-$ROOT}"
mkdir -p "$ROOT/.bin"
BIN="$ROOT/.bin/check.$$"
MODARG=""
ERRF="$ROOT/.bin/stderr.$$"
trap 'rm -f "$BIN" "$ERRF" "$ROOT/.bin/go.$$.mod" "$ROOT/.bin/go.$$.sum"' EXIT
if [ -n "${VERIF_REPO:-}" ]; then
  sed "s#=> /repo#=> ${VERIF_REPO}#" "$ROOT/mc/go.mod" > "$ROOT/.bin/go.$$.mod"
  : > "$ROOT/.bin/go.$$.sum"
  MODARG="-modfile=$ROOT/.bin/go.$$.mod"
  export VERIF_MODFILE="$ROOT/.bin/go.$$.mod"
fi
if ! (cd "$ROOT/mc" && go build $MODARG -o "$BIN" ./cmd/check) ; then
  echo "BUILD FAILED: the checker does not build against the library's working tree" >&2
  exit 2
fi
if [ "${1:-}" = "build" ]; then exit 0; fi
"$BIN" "$@" 2>"$ERRF"
rc=$?
cat "$ERRF" >&2
# A Go runtime FATAL error (concurrent map writes, stack exhaustion, ...) kills
# the process without unwinding, so the checker cannot report it itself. When
# the dying stack runs through the library, that is a violation found by this
# check, reported in the usual form.
if [ $rc -eq 2 ] && grep -q '^fatal error:' "$ERRF" 2>/dev/null && grep -q 'github.com/onheap/eval\.' "$ERRF" && [[ "${1:-}" =~ ^C[0-9][0-9]$ ]]; then
  OUT="${VERIF_OUT:-$VERIF_ROOT}"
  mkdir -p "$OUT/replays"
  REPLAY="$OUT/replays/$1-fatal.json"
  python3 - "$1" "$ERRF" "$REPLAY" <<'PY'
import json, sys
pid, errf, out = sys.argv[1:4]
txt = open(errf, errors="replace").read()
i = txt.find("fatal error:")
json.dump({"property": pid, "kind": "fatal-runtime-error",
           "message": "the Go runtime aborted the checker inside the library: " + txt[i:].splitlines()[0],
           "case": {"stderr": txt[i:i + 6000]}}, open(out, "w"), indent=1)
PY
  echo "  [fatal-runtime-error] $(grep -m1 '^fatal error:' "$ERRF") (inside github.com/onheap/eval)"
  echo "VIOLATION property=$1 replay=$REPLAY"
  exit 1
fi
exit $rc
