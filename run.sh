#!/bin/bash
# usage: run.sh <ID> [quick|thorough]   |   run.sh replay <file>   |   run.sh build
# Rebuilds the checker against /repo's CURRENT working tree (the module
# replaces github.com/onheap/eval with /repo) and runs it.
set -u
export GOFLAGS=-mod=mod GOPROXY=off GOSUMDB=off GOTOOLCHAIN=local CGO_ENABLED=0
ROOT="$(cd "$(dirname "$0")" && pwd)"
export VERIF_ROOT="${VERIF_ROOT:-$ROOT}"
mkdir -p "$ROOT/.bin"
BIN="$ROOT/.bin/check.$$"
trap 'rm -f "$BIN"' EXIT
if ! (cd "$ROOT/mc" && go build -o "$BIN" ./cmd/check) ; then
  echo "BUILD FAILED: the checker does not build against /repo's working tree" >&2
  exit 2
fi
if [ "${1:-}" = "build" ]; then exit 0; fi
"$BIN" "$@"
