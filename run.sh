#!/bin/bash
# usage: run.sh <ID> [quick|thorough]   |   run.sh replay <file>   |   run.sh build
# Rebuilds the checker against /repo's CURRENT working tree (the module
# replaces github.com/onheap/eval with /repo) and runs it.
# VERIF_REPO=<dir> (development aid only, never used by MANIFEST commands)
# builds against another checkout of the library instead of /repo.
set -u
export GOFLAGS=-mod=mod GOPROXY=off GOSUMDB=off GOTOOLCHAIN=local CGO_ENABLED=0
ROOT="$(cd "$(dirname "$0")" && pwd)"
export VERIF_ROOT="${VERIF_ROOT:-$ROOT}"
mkdir -p "$ROOT/.bin"
BIN="$ROOT/.bin/check.$$"
MODARG=""
trap 'rm -f "$BIN" "$ROOT/.bin/go.$$.mod" "$ROOT/.bin/go.$$.sum"' EXIT
if [ -n "${VERIF_REPO:-}" ]; then
  sed "s#=> /repo#=> ${VERIF_REPO}#" "$ROOT/mc/go.mod" > "$ROOT/.bin/go.$$.mod"
  : > "$ROOT/.bin/go.$$.sum"
  MODARG="-modfile=$ROOT/.bin/go.$$.mod"
  export VERIF_MODFILE="$ROOT/.bin/go.$$.mod"
fi
if ! (cd "$ROOT/mc" && go build $MODARG -o "$BIN" ./cmd/check) ; then
  echo "BUILD FAILED: the checker does not build against the library's working tree" >&2
  exit 2
fi
if [ "${1:-}" = "build" ]; then exit 0; fi
"$BIN" "$@"
